#!/usr/bin/env bash
# Build the libgraphqlparser replacement shim.
#
#   build.sh          -> $VERIF_BUILD/shim/libgraphqlparser.so   (g++ -O2)
#   build.sh asan     -> $VERIF_BUILD/shim/gqlshim_asan          (clang++ ASan+UBSan driver)
#   build.sh all      -> both
#
# VERIF_BUILD defaults to <dir of this script>/../build.  Idempotent (skips
# when the output is newer than its sources) and safe under concurrent
# invocation (builds to a unique temp name, then atomic rename).
set -euo pipefail

here="$(cd "$(dirname "${BASH_SOURCE[0]}")" && pwd)"
build_root="${VERIF_BUILD:-$here/../build}"
out_dir="$build_root/shim"
mkdir -p "$out_dir"
out_dir="$(cd "$out_dir" && pwd)"

mode="${1:-so}"

# up_to_date OUT SRC... : true when OUT exists and is newer than every SRC
up_to_date() {
  local out="$1"
  shift
  [ -f "$out" ] || return 1
  local s
  for s in "$@"; do
    [ "$out" -nt "$s" ] || return 1
  done
  return 0
}

# atomic_build OUT CMD... : runs CMD with "-o <tmp>" appended, then renames
atomic_build() {
  local out="$1"
  shift
  local tmp
  tmp="$(mktemp "$out.tmp.XXXXXX")"
  if "$@" -o "$tmp"; then
    chmod 755 "$tmp"
    mv -f "$tmp" "$out"
  else
    local rc=$?
    rm -f "$tmp"
    return "$rc"
  fi
}

build_so() {
  local out="$out_dir/libgraphqlparser.so"
  if up_to_date "$out" "$here/gqlshim.cpp" "$here/build.sh"; then
    return 0
  fi
  atomic_build "$out" \
    "${CXX:-g++}" -O2 -std=c++17 -shared -fPIC \
    -fvisibility=hidden -fvisibility-inlines-hidden \
    -Wall -Wextra -Wpedantic -Wshadow -Wconversion -Wno-sign-conversion \
    "$here/gqlshim.cpp"
}

build_asan() {
  local out="$out_dir/gqlshim_asan"
  if up_to_date "$out" "$here/gqlshim.cpp" "$here/asan_main.cpp" "$here/build.sh"; then
    return 0
  fi
  atomic_build "$out" \
    "${CLANGXX:-clang++}" -std=c++17 -O1 -g -fno-omit-frame-pointer \
    -fsanitize=address,undefined -fno-sanitize-recover=all \
    -Wall -Wextra \
    "$here/gqlshim.cpp" "$here/asan_main.cpp"
}

case "$mode" in
  so) build_so ;;
  asan) build_asan ;;
  all) build_so; build_asan ;;
  *) echo "usage: $0 [so|asan|all]" >&2; exit 2 ;;
esac
