// asan_main.cpp -- sanitizer driver for gqlshim.cpp (linked directly, no .so).
//
// usage: gqlshim_asan CORPUS [--dump]
//
// CORPUS is a sequence of records: 4-byte little-endian length, then that many
// bytes.  Each record is handed to the shim as a C string (i.e. cut at its
// first NUL) living in an exactly-sized heap buffer, so that any read past the
// terminator is an ASan heap-buffer-overflow.  For every input the full ABI
// life cycle is exercised: parse -> to_json -> node_free / error_free.
//
// Prints one summary line:
//   inputs=N accepted=A rejected=R crc32=<hex>
// where crc32 is zlib's CRC-32 over the sequence of little-endian 32-bit
// per-input CRC-32s of 'A' + json (accepted) or 'R' + message (rejected).  difftest.py compares it with the -O2 .so results.
// Exit status: 0 ok, 2 usage/IO error, 3 ABI contract violation; sanitizer
// reports abort the process (-fno-sanitize-recover=all / ASan default).

#include <cstdint>
#include <cstdio>
#include <cstdlib>
#include <cstring>
#include <vector>

extern "C" {
struct GraphQLAstNode;
struct GraphQLAstNode* graphql_parse_string(const char* text, const char** error);
void graphql_error_free(const char* error);
void graphql_node_free(struct GraphQLAstNode* node);
const char* graphql_ast_to_json(const struct GraphQLAstNode* node);
}

namespace {

// CRC-32 (zlib polynomial), so that Python can check it with zlib.crc32.
uint32_t g_crc_table[256];
uint32_t g_total = 0xFFFFFFFFu;  // running CRC over the per-input CRCs

void crc_init() {
  for (uint32_t i = 0; i < 256; i++) {
    uint32_t c = i;
    for (int k = 0; k < 8; k++) c = (c & 1u) ? (0xEDB88320u ^ (c >> 1)) : (c >> 1);
    g_crc_table[i] = c;
  }
}

uint32_t crc_update(uint32_t c, const void* p, size_t n) {
  const unsigned char* b = static_cast<const unsigned char*>(p);
  for (size_t i = 0; i < n; i++) c = g_crc_table[(c ^ b[i]) & 0xFFu] ^ (c >> 8);
  return c;
}

void record(char tag, const char* text, size_t n) {
  uint32_t c = 0xFFFFFFFFu;
  c = crc_update(c, &tag, 1);
  c = crc_update(c, text, n);
  c ^= 0xFFFFFFFFu;
  const unsigned char le[4] = {
      static_cast<unsigned char>(c & 0xFF), static_cast<unsigned char>((c >> 8) & 0xFF),
      static_cast<unsigned char>((c >> 16) & 0xFF), static_cast<unsigned char>((c >> 24) & 0xFF)};
  g_total = crc_update(g_total, le, 4);
}

}  // namespace

int main(int argc, char** argv) {
  if (argc < 2) {
    std::fprintf(stderr, "usage: %s CORPUS [--dump]\n", argv[0]);
    return 2;
  }
  const bool dump = argc > 2 && std::strcmp(argv[2], "--dump") == 0;
  std::FILE* f = std::fopen(argv[1], "rb");
  if (f == nullptr) {
    std::perror(argv[1]);
    return 2;
  }
  unsigned long long inputs = 0, accepted = 0, rejected = 0;
  crc_init();

  // ABI corner cases.
  graphql_node_free(nullptr);
  graphql_error_free(nullptr);
  if (graphql_ast_to_json(nullptr) != nullptr) return 3;
  {
    // NULL error out-parameter must be tolerated, on both paths.
    GraphQLAstNode* n = graphql_parse_string("{a}", nullptr);
    if (n == nullptr) return 3;
    graphql_node_free(n);
    if (graphql_parse_string("{", nullptr) != nullptr) return 3;
  }

  std::vector<unsigned char> rec;
  for (;;) {
    unsigned char hdr[4];
    const size_t got = std::fread(hdr, 1, 4, f);
    if (got == 0) break;
    if (got != 4) {
      std::fprintf(stderr, "truncated corpus header\n");
      return 2;
    }
    const size_t len = static_cast<size_t>(hdr[0]) | static_cast<size_t>(hdr[1]) << 8 |
                       static_cast<size_t>(hdr[2]) << 16 | static_cast<size_t>(hdr[3]) << 24;
    rec.resize(len);
    if (len != 0 && std::fread(rec.data(), 1, len, f) != len) {
      std::fprintf(stderr, "truncated corpus record\n");
      return 2;
    }
    size_t clen = 0;
    while (clen < len && rec[clen] != 0) clen++;
    char* text = static_cast<char*>(std::malloc(clen + 1));
    if (text == nullptr) return 2;
    if (clen != 0) std::memcpy(text, rec.data(), clen);
    text[clen] = '\0';

    const char* error = reinterpret_cast<const char*>(0x1);  // must be overwritten
    GraphQLAstNode* node = graphql_parse_string(text, &error);
    std::free(text);  // the handle must not keep pointers into the input
    inputs++;
    if (node != nullptr) {
      if (error != nullptr) {
        std::fprintf(stderr, "input %llu: node and error both set\n", inputs);
        return 3;
      }
      const char* json = graphql_ast_to_json(node);
      if (json == nullptr) {
        std::fprintf(stderr, "input %llu: NULL json\n", inputs);
        return 3;
      }
      const char* json2 = graphql_ast_to_json(node);  // idempotent
      if (json2 == nullptr || std::strcmp(json, json2) != 0) return 3;
      const size_t jl = std::strlen(json);
      record('A', json, jl);
      if (dump) std::printf("A %s\n", json);
      graphql_node_free(node);
      accepted++;
    } else {
      if (error == nullptr || error == reinterpret_cast<const char*>(0x1)) {
        std::fprintf(stderr, "input %llu: NULL node without error\n", inputs);
        return 3;
      }
      const size_t el = std::strlen(error);
      record('R', error, el);
      if (dump) std::printf("R %s\n", error);
      graphql_error_free(error);
      rejected++;
    }
  }
  std::fclose(f);
  std::printf("inputs=%llu accepted=%llu rejected=%llu crc32=%08lx\n", inputs, accepted,
              rejected, static_cast<unsigned long>(g_total ^ 0xFFFFFFFFu));
  return 0;
}
