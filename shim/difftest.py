#!/venv/bin/python
"""Differential test: C++ shim (libgraphqlparser.so replacement) vs vt/pyparser.py.

    /venv/bin/python shim/difftest.py [--n N] [--seed S] [--asan] [--summary FILE]

For every input of a large deterministic corpus, either both parsers reject,
or both accept and their JSON outputs load to the same value (compared with
object key order preserved).  Exit status 1 on any disagreement.
"""
import argparse
import json
import os
import random
import re
import struct
import subprocess
import sys
import time
import zlib

HERE = os.path.dirname(os.path.abspath(__file__))
ROOT = os.path.dirname(HERE)
BUILD = os.environ.get("VERIF_BUILD") or os.path.join(ROOT, "build")
SHIM_DIR = os.path.join(BUILD, "shim")
sys.path.insert(0, ROOT)

from vt import pyparser  # noqa: E402

CDEF = """
struct GraphQLAstNode *graphql_parse_string(
    const char *text, const char **error);

void graphql_error_free(const char *error);

void graphql_node_free(struct GraphQLAstNode *node);

const char *graphql_ast_to_json(const struct GraphQLAstNode *node);
"""


def build(mode):
    env = dict(os.environ, VERIF_BUILD=BUILD)
    subprocess.run(["bash", os.path.join(HERE, "build.sh"), mode], check=True,
                   env=env)


class Shim:
    def __init__(self):
        from cffi import FFI
        self.ffi = FFI()
        self.ffi.cdef(CDEF)
        self.lib = self.ffi.dlopen(os.path.join(SHIM_DIR, "libgraphqlparser.so"))
        # same ABI corner cases tartiflette may hit
        self.lib.graphql_node_free(self.ffi.NULL)
        self.lib.graphql_error_free(self.ffi.NULL)

    def parse(self, data: bytes):
        """-> (json_bytes, None) or (None, error_bytes)"""
        ffi, lib = self.ffi, self.lib
        errors = ffi.new("char **")
        node = lib.graphql_parse_string(ffi.new("char[]", data), errors)
        if errors[0] != ffi.NULL:
            msg = ffi.string(errors[0])
            lib.graphql_error_free(errors[0])
            if node != ffi.NULL:
                raise AssertionError("node and error both set for %r" % data)
            return None, msg
        if node == ffi.NULL:
            raise AssertionError("NULL node and no error for %r" % data)
        out = ffi.string(lib.graphql_ast_to_json(node))
        lib.graphql_node_free(node)
        return out, None


# --------------------------------------------------------------------------
# (a) hand-written documents
# --------------------------------------------------------------------------

HAND = [
    b"{ a }",
    b"{a}",
    b"{ a { a1 a2 } }",
    b"query { a }",
    b"query Q { a }",
    b"mutation { a }",
    b"mutation M { a b c }",
    b"subscription S { a }",
    b"subscription { a }",
    b"query Q($a: Int) { a }",
    b"query Q($a: Int = 1) { a }",
    b"query Q($a: Int! = 1, $b: [Int], $c: [Int!]!, $d: [[Int]!] = [[1]]) { a }",
    b"query Q($a: Obj = {a: 1, b: [true, false, null], c: ENUM, d: \"s\", e: 1.5}) { a }",
    b"query Q($a: Int = $b) { a }",  # const violation
    b"query Q() { a }",
    b"query Q( { a }",
    b"query Q($a Int) { a }",
    b"query Q($a:) { a }",
    b"query Q($: Int) { a }",
    b"query Q @dir { a }",
    b"query Q @dir(a: 1) @dir2 { a }",
    b"query Q($a: Int) @dir(a: $a) { a }",
    b"query @dir { a }",
    b"query on { a }",
    b"query query { query }",
    b"query fragment { fragment }",
    b"query type { type }",
    b"query null { null true false }",
    b"{ query mutation subscription fragment on type schema scalar interface union enum input directive extend implements null true false }",
    b"{ on: on on: query }",
    b"{ a: b }",
    b"{ a: b c: d }",
    b"{ a: b: c }",
    b"{ a: }",
    b"{ :a }",
    b"{ a(b: 1) }",
    b"{ a(b: 1, c: 2) }",
    b"{ a(b: 1 c: 2) }",
    b"{ a() }",
    b"{ a( }",
    b"{ a(b) }",
    b"{ a(b:) }",
    b"{ a(b: 1 }",
    b"{ a(b: $v) }",
    b"{ a(b: $ v) }",
    b"{ a(b: $1) }",
    b"{ a(b: [$v, [$w]]) }",
    b"{ a(b: {c: $v}) }",
    b"{ a(b: -1) }",
    b"{ a(b: 0) }",
    b"{ a(b: -0) }",
    b"{ a(b: 123456789012345678901234567890) }",
    b"{ a(b: 1.0) }",
    b"{ a(b: -1.5e10) }",
    b"{ a(b: 1e5) }",
    b"{ a(b: 1E+5) }",
    b"{ a(b: 1e-5) }",
    b"{ a(b: 0.0e0) }",
    b"{ a(b: 01) }",
    b"{ a(b: 1.) }",
    b"{ a(b: .5) }",
    b"{ a(b: 1e) }",
    b"{ a(b: 1e+) }",
    b"{ a(b: 1.5e) }",
    b"{ a(b: 1.5.5) }",
    b"{ a(b: 1a) }",
    b"{ a(b: 1_) }",
    b"{ a(b: 0x10) }",
    b"{ a(b: -) }",
    b"{ a(b: -a) }",
    b"{ a(b: --1) }",
    b"{ a(b: +1) }",
    b"{ a(b: 1-1) }",
    b"{ a(b: 1,2) }",
    b"{ a(b: 1\xc3\xa9) }",
    b"{ a(b: 1)}",
    b"{ a(b: 1\"x\") }",
    b"{ a(b: true c: false d: null e: ENUM f: on g: query) }",
    b"{ a(b: \"\") }",
    b"{ a(b: \"hello\") }",
    b"{ a(b: \"he said \\\"hi\\\" \\\\ \\/ \\b \\f \\n \\r \\t\") }",
    b"{ a(b: \"\\u0041\\u00e9\\u20ac\\uFFFF\\uffff\\u0000\\u001f\") }",
    b"{ a(b: \"\\ud83d\\ude00\") }",
    b"{ a(b: \"\\ud83d\") }",
    b"{ a(b: \"\\ude00\") }",
    b"{ a(b: \"\\ude00\\ud83d\") }",
    b"{ a(b: \"\\ud83d\\ud83d\\ude00\\ude00\") }",
    b"{ a(b: \"\\ud83d x \\ude00\") }",
    b"{ a(b: \"\\ud83d\\\\ude00\") }",
    b"{ a(b: \"\\ud83d\xed\xb8\x80\") }",
    b"{ a(b: \"\xed\xa0\xbd\\ude00\") }",
    b"{ a(b: \"\xed\xa0\xbd\xed\xb8\x80\") }",
    b"{ a(b: \"\xed\xa0\x80\") }",
    b"{ a(b: \"\xed\xbf\xbf\") }",
    b"{ a(b: \"\xed\xa0\") }",
    b"{ a(b: \"\xed\x9f\xbf\xee\x80\x80\") }",
    b"{ a(b: \"\\u12\") }",
    b"{ a(b: \"\\u12G4\") }",
    b"{ a(b: \"\\u\") }",
    b"{ a(b: \"\\x41\") }",
    b"{ a(b: \"\\a\") }",
    b"{ a(b: \"\\",
    b"{ a(b: \"\\u00",
    b"{ a(b: \"\\\n\") }",
    b"{ a(b: \"unterminated) }",
    b"{ a(b: \"line\nbreak\") }",
    b"{ a(b: \"line\rbreak\") }",
    b"{ a(b: \"tab\there\") }",
    b"{ a(b: \"ctl\x01here\") }",
    b"{ a(b: \"ctl\x1fhere\") }",
    b"{ a(b: \"del\x7fhere\") }",
    b"{ a(b: \"nul\x00here\") }",
    b"{ a } \x00 garbage {{{{",
    b"\x00",
    b"{ a(b: \"caf\xc3\xa9 \xe2\x98\x83 \xf0\x9f\x98\x80 \xf4\x8f\xbf\xbf\") }",
    b"{ a(b: \"\xc3\") }",
    b"{ a(b: \"\xc3\x28\") }",
    b"{ a(b: \"\x80\") }",
    b"{ a(b: \"\xc0\x80\") }",
    b"{ a(b: \"\xc1\xbf\") }",
    b"{ a(b: \"\xe0\x80\x80\") }",
    b"{ a(b: \"\xe0\x9f\xbf\") }",
    b"{ a(b: \"\xe0\xa0\x80\") }",
    b"{ a(b: \"\xf0\x80\x80\x80\") }",
    b"{ a(b: \"\xf0\x8f\xbf\xbf\") }",
    b"{ a(b: \"\xf0\x90\x80\x80\") }",
    b"{ a(b: \"\xf4\x90\x80\x80\") }",
    b"{ a(b: \"\xf5\x80\x80\x80\") }",
    b"{ a(b: \"\xff\") }",
    b"{ a(b: \"\xfe\") }",
    b"{ a(b: \"\xef\xbb\xbf\") }",
    b"{ a(b: \"\xef\xbf\xbe\xef\xbf\xbf\") }",
    b"{ a(b: \"\"\"block\"\"\") }",
    b"{ a(b: \"\"\"\"\"\") }",
    b"{ a(b: \"\"\"\"\"\"\") }",
    b"{ a(b: \"\"\"\"\"\"\"\") }",
    b"{ a(b: \"\"\" \"\"\") }",
    b"{ a(b: \"\"\"\n\"\"\") }",
    b"{ a(b: \"\"\"\n\n\n\"\"\") }",
    b"{ a(b: \"\"\"\n    hello\n      world\n    \"\"\") }",
    b"{ a(b: \"\"\"first\n    hello\n      world\n    \"\"\") }",
    b"{ a(b: \"\"\"  first\n    hello\n  world\"\"\") }",
    b"{ a(b: \"\"\"\n\thello\n\t\tworld\n \tmixed\"\"\") }",
    b"{ a(b: \"\"\"\r\n  a\r\n  b\r  c\n  d\n\r  e\"\"\") }",
    b"{ a(b: \"\"\"\n  a\n\n  b\n   \n  c\n      \n\"\"\") }",
    b"{ a(b: \"\"\"\n  a\n \n  b\"\"\") }",
    b"{ a(b: \"\"\"\n     \n  a\n          \n  b\n     \"\"\") }",
    b"{ a(b: \"\"\"  \n  \n  a  \n  \n  \"\"\") }",
    b"{ a(b: \"\"\"contains \\\"\"\" escaped\"\"\") }",
    b"{ a(b: \"\"\"\\\"\"\"\"\"\") }",
    b"{ a(b: \"\"\"a\\\"\"\"\"\"\"\"\") }",
    b"{ a(b: \"\"\"quote \" and \"\" inside\"\"\") }",
    b"{ a(b: \"\"\"back\\slash \\n \\u0041 \\\\ \\\"\"\"\") }",
    b"{ a(b: \"\"\"ends with backslash\\\"\"\") }",
    b"{ a(b: \"\"\"ctl \x01 \x1f \x7f\"\"\") }",
    b"{ a(b: \"\"\"caf\xc3\xa9 \xe2\x98\x83 \xf0\x9f\x98\x80\n  \xc3\xa9\n   \xe2\x98\x83\"\"\") }",
    b"{ a(b: \"\"\"\xed\xa0\x80\"\"\") }",
    b"{ a(b: \"\"\"\xff\"\"\") }",
    b"{ a(b: \"\"\"\xc3\"\"\") }",
    b"{ a(b: \"\"\"unterminated) }",
    b"{ a(b: \"\"\"unterminated\"\") }",
    b"{ a(b: \"\"\"x\"\"\" c: \"\"\"y\ny\"\"\") d }",
    b"{ a(b: \"\"\"\n line1\n line2\"\"\"\n c: 1) }",
    b"{ a(b: \"\"\"x\r\"\"\" c: 1) d\n e }",
    b"{ a(b: \"\"\"x\r\n\"\"\" c: 1) d\n e }",
    b"{ a(b: \"\"\"x\n\r\"\"\" c: 1) d\n e }",
    b"{ a(b: []) }",
    b"{ a(b: {}) }",
    b"{ a(b: [[]]) }",
    b"{ a(b: [{}, {a: []}, [[{}]]]) }",
    b"{ a(b: [1, 2, 3]) }",
    b"{ a(b: [1 2 3]) }",
    b"{ a(b: [1, \"a\", true, null, E, 1.5, $v, [], {}]) }",
    b"{ a(b: {c: 1, d: {e: [1, {f: \"x\"}]}}) }",
    b"{ a(b: {c: 1 d: 2}) }",
    b"{ a(b: {c 1}) }",
    b"{ a(b: {c:}) }",
    b"{ a(b: {1: 1}) }",
    b"{ a(b: {\"c\": 1}) }",
    b"{ a(b: [) }",
    b"{ a(b: [1) }",
    b"{ a(b: {c: 1) }",
    b"{ a(b: ]) }",
    b"{ a(b: }) }",
    b"{ a(b: {on: on, query: query, null: null, true: true}) }",
    b"{ a @skip(if: true) }",
    b"{ a @skip(if: $v) @include(if: false) { b } }",
    b"{ a @d }",
    b"{ a @d() }",
    b"{ a @ d }",
    b"{ a @1 }",
    b"{ a @on @query @fragment }",
    b"{ a(b:1) @d(c:2) { e } }",
    b"{ a @d (b:1) }",
    b"{ ...F }",
    b"{ ... F }",
    b"{ ...F @d }",
    b"{ ...F @d(a: 1) @e }",
    b"{ ...on }",
    b"{ ...on T { a } }",
    b"{ ... on T { a } }",
    b"{ ...on T @d { a } }",
    b"{ ...on on { a } }",
    b"{ ...on { a } }",
    b"{ ... { a } }",
    b"{ ... @d { a } }",
    b"{ ... @d(x: [1]) { a ... { b } } }",
    b"{ ...on T }",
    b"{ ...on T a }",
    b"{ ... }",
    b"{ ...",
    b"{ .. a }",
    b"{ . }",
    b"{ .... a }",
    b"{ ......a }",
    b"{ ...query ...fragment ...type ...null ...true }",
    b"{ ...a(b:1) }",
    b"fragment F on T { a }",
    b"fragment F on T @d { a }",
    b"fragment F on T @d(a: [1, {b: 2}]) { a ...G ... on U { b } }",
    b"fragment on on T { a }",
    b"fragment on T { a }",
    b"fragment F T { a }",
    b"fragment F on { a }",
    b"fragment F on T",
    b"fragment F on T { }",
    b"fragment F on on { a }",
    b"fragment fragment on fragment { fragment }",
    b"fragment query on type { a }",
    b"fragment F on T { a } fragment G on U { b } { ...F ...G }",
    b"fragment",
    b"fragment F",
    b"fragment F on",
    b"fragment F($a: Int) on T { a }",
    b"{ a } { b }",
    b"{ a } query Q { b } mutation { c } fragment F on T { d }",
    b"query Q { a } query Q { a }",
    b"{ a { b { c { d { e(f: [[[{g: {h: [1]}}]]]) } } } } }",
    b"{ a, b, c }",
    b",,,{,,,a,,,},,,",
    b"{ a(b: 1,,, c: 2,) }",
    b"{ a(,b: 1) }",
    b"{ a(b,: 1) }",
    b",",
    b" ",
    b"",
    b"\n",
    b"\r",
    b"\r\n",
    b"\t",
    b"# just a comment",
    b"# just a comment\n",
    b"#",
    b"{ a # comment }\n }",
    b"{ a # comment\r b # other\r\n c # third\n }",
    b"# c1\n# c2\r# c3\r\n{ a }",
    b"{ a } # trailing",
    b"{ a } # trailing \xff\xfe invalid utf8 in comment \xc3",
    b"# caf\xc3\xa9 \xe2\x98\x83 \xf0\x9f\x98\x80\n{ a # \xe2\x98\x83\n b }",
    b"{ a(b: \"# not a comment\") }",
    b"{ a(b: \"\"\"# not a comment\n# neither\"\"\") }",
    b"\xef\xbb\xbf{ a }",
    b"\xef\xbb\xbf",
    b"\xef\xbb\xbf\n{ a }",
    b"\xef\xbb\xbf\xef\xbb\xbf{ a }",
    b" \xef\xbb\xbf{ a }",
    b"{ a \xef\xbb\xbf }",
    b"\xef\xbb{ a }",
    b"\xef{ a }",
    b"\xef\xbb\xbf# comment\n{ a }",
    b"\xef\xbb\xbf\"\"\"d\"\"\" type A { a: Int }",
    b"{\n  a\n  b\n}",
    b"{\r\n  a\r\n  b\r\n}",
    b"{\r  a\r  b\r}",
    b"{\n\r  a\r\n\n\r\r\n  b\n}",
    b"{\n\n\n a \r\r\r b \r\n\r\n\r\n c }",
    b"query Q {\n  a(b: \"x\"\n    c: 1)\r\n  d\r}",
    b"{ caf\xc3\xa9 }",
    b"{ \xc3\xa9 }",
    b"{ a\xc3\xa9 }",
    b"{ a \x01 }",
    b"{ a \x7f }",
    b"{ a \x0b }",
    b"{ a \x0c }",
    b"{ a \xa0 }",
    b"{ a ; }",
    b"{ a ? }",
    b"{ a % }",
    b"{ a ^ }",
    b"{ a * }",
    b"{ a + }",
    b"{ a - }",
    b"{ a / }",
    b"{ a < > }",
    b"{ a ~ }",
    b"{ a ` }",
    b"{ a ' }",
    b"{ a \\ }",
    b"{ a | b }",
    b"{ a & b }",
    b"{ a = b }",
    b"{ a ! }",
    b"{ a $ }",
    b"{ a ] }",
    b"{ a [ }",
    b"{ a ) }",
    b"{ 1 }",
    b"{ 1.5 }",
    b"{ \"s\" }",
    b"{ \"\"\"s\"\"\" }",
    b"{ $a }",
    b"{ @a }",
    b"{ a { } }",
    b"{ }",
    b"{",
    b"}",
    b"{{",
    b"{ a { }",
    b"{ a",
    b"{ a }}",
    b"{ a } }",
    b"query",
    b"query Q",
    b"query Q(",
    b"query Q($",
    b"query Q($a",
    b"query Q($a:",
    b"query Q($a: [",
    b"query Q($a: [Int",
    b"query Q($a: [Int]",
    b"query Q($a: [Int]!",
    b"query Q($a: [Int]! =",
    b"query Q($a: Int!!) { a }",
    b"query Q($a: [Int!]!) { a }",
    b"query Q($a: [[[Int!]!]!]!) { a }",
    b"query Q($a: []) { a }",
    b"query Q($a: [Int Int]) { a }",
    b"query Q($a: !Int) { a }",
    b"query Q($a: Int = [1, {a: $b}]) { a }",
    b"query Q($a: Int = {a: [$b]}) { a }",
    b"query Q($a: Int = 1 $b: Int = 2) { a }",
    b"query Q($a: Int = 1, $b: Int = 2,) { a }",
    b"query Q($on: on = on) { a }",
    b"query Q($query: query = query) { a }",
    b"query Q($a: Int) query R { a }",
    b"a",
    b"a { b }",
    b"1",
    b"\"s\"",
    b"\"s\" { a }",
    b"\"s\" query { a }",
    b"\"s\" fragment F on T { a }",
    b"\"s\"",
    b"\"s\" \"t\" type A",
    b"\"\"\"s\"\"\"",
    b"$",
    b"@",
    b"...",
    b"!",
    b"[",
    b"(",
    b"on",
    b"null",
    b"implements",
    # type system
    b"schema { query: Query }",
    b"schema { query: Query mutation: Mutation subscription: Subscription }",
    b"schema @d { query: Query }",
    b"schema",
    b"schema {",
    b"schema }",
    b"schema } {",
    b"schema } { query: Q }",
    b"schema } } { { query: Q } } type A",
    b"scalar Date",
    b"scalar Date @d",
    b"scalar Date @d(a: 1) scalar Time",
    b"scalar",
    b"scalar scalar",
    b"scalar scalar scalar",
    b"scalar type",
    b"scalar A scalar",
    b"type A { a: Int }",
    b"type A { a: Int } type B { b: String }",
    b"type A implements I { a: Int }",
    b"type A implements I & J { a: Int }",
    b"type A implements & I & J @d { a(x: Int = 1, y: [String!]! = [\"a\"]): Int! @dep(reason: \"x\") }",
    b"type A implements I, J { a: Int }",
    b"type A",
    b"type A type B",
    b"type A @d type B",
    b"type type { type: type }",
    b"type A { type: Int query: Int fragment: Int }",
    b"type A { a: type }",
    b"type A { a: Int = type }",
    b"type A @type",
    b"type A @d type",
    b"type A { a: Int",
    b"type A { a: Int }}",
    b"type A { a: Int } }",
    b"type A {{ a: Int }}",
    b"type A { a: { b: Int } }",
    b"type A { a(b: In = {c: 1}): Int }",
    b"type { a: Int }",
    b"type",
    b"type 1",
    b"type \"x\"",
    b"type A \"desc\" type B",
    b"type A { \"desc\" a: Int \"\"\"block\n desc\"\"\" b: Int }",
    b"interface I { a: Int }",
    b"interface I @d { a: Int } interface J { b: Int }",
    b"union U = A | B",
    b"union U = | A | B",
    b"union U @d = A | B | C union V = D",
    b"union U = A | type",
    b"union U = type",
    b"union U = A type B",
    b"union U",
    b"union U =",
    b"union U = |",
    b"enum E { A B C }",
    b"enum E @d { A @dep B C } enum F { D }",
    b"enum E { type query }",
    b"input I { a: Int = 1 }",
    b"input I @d { a: Int = 1 @d b: [I!] = [{a: 2}] } input J { c: Int }",
    b"input I { a: type = type }",
    b"directive @d on FIELD",
    b"directive @d on FIELD | QUERY",
    b"directive @d(a: Int = 1, b: [String]) on | FIELD | FRAGMENT_SPREAD",
    b"directive @d on FIELD directive @e on QUERY",
    b"directive @type on type",
    b"directive @d on FIELD type A",
    b"directive @d on FIELD | type A",
    b"directive @d on FIELD & type A",
    b"directive @ d on FIELD",
    b"directive",
    b"directive directive",
    b"directive @directive on directive",
    b"extend type A { b: Int }",
    b"extend type A @d",
    b"extend type A implements I",
    b"extend schema { query: Q }",
    b"extend schema @d",
    b"extend scalar S @d",
    b"extend interface I { a: Int }",
    b"extend union U = A | B",
    b"extend enum E { D }",
    b"extend input I { b: Int }",
    b"extend",
    b"extend extend",
    b"extend type",
    b"extend type type",
    b"extend type A type B",
    b"extend type A { a: Int } extend type B { b: Int }",
    b"extend query { a }",
    b"extend fragment F on T { a }",
    b"extend { a }",
    b"\"desc\" type A { a: Int }",
    b"\"\"\"desc\"\"\" type A { a: Int }",
    b"\"\"\"\n  multi\n    line\n  desc\n\"\"\"\ntype A { a: Int }\n\"d2\" scalar S",
    b"\"desc\" schema { query: Q }",
    b"\"desc\" extend type A { a: Int }",
    b"\"desc\" directive @d on FIELD",
    b"\"desc\" implements",
    b"\"desc\" A",
    b"\"desc\" 1",
    b"\"desc\" {",
    b"\"desc\"\n\n\"\"\"other\"\"\" type A",
    b"\"desc \\ud800 \xed\xa0\x80\" type A",
    b"\"bad \xff\" type A",
    b"\"\"\"bad \xff\"\"\" type A",
    b"type A { a: Int } { a } type B { b: Int } query Q { b } scalar S fragment F on T { c }",
    b"type A { a: Int } query",
    b"type A { a: Int } fragment",
    b"type A query { a }",
    b"type A fragment F on T { a }",
    b"type A mutation { a }",
    b"type A subscription { a }",
    b"type A { a: Int } { a }",
    b"type A { a }",
    b"type A : query { a }",
    b"type A = query { a }",
    b"type A | query { a }",
    b"type A & query { a }",
    b"type A @ query { a }",
    b"type A ! query { a }",
    b"type A ( query { a }",
    b"type A [ query { a }",
    b"type A $ query { a }",
    b"type A ... query { a }",
    b"type A 1 query { a }",
    b"type A \"s\" query { a }",
    b"type query { a }",
    b"type query query { a }",
    b"type A { query: Q } query { a }",
    b"type A { { } query } query { a }",
    b"type A } query { a }",
    b"type A } { query } query { a }",
    b"type A } } } { { { x } query { a }",
    b"type A { a(b: \"}\"): Int }",
    b"type A { a(b: \"\"\"}\n}\"\"\"): Int } scalar S",
    b"type A { # }\n a: Int }",
    b"schema { query: Query }\n\ntype Query {\n  hello(name: String = \"x\"): String @deprecated(reason: \"\"\"no\"\"\")\n}\n\nquery { hello }",
    b"{ a(b: 1.5e3) @d { ...F ... on T @e { c: d(e: [$f, {g: \"h\"}]) } } } fragment F on T { i }",
    b"query Q($a: [Int!]! = [1, 2] @d, $b: B) { a }",
    b"{ a(b: \"\\u0000\") }",
    b"{ a(b: \"x\\u0000\") c }",
    b"{ a(b: \"\\\"\") }",
    b"{ a(b: \"\\\\\") }",
    b"{ a(b: \"\\\\\\\"\") }",
    b"{ a(b: \"a\"\"b\") }",
    b"{ a(b: \"a\" \"b\") }",
    b"{ a(b: \"\"\"\") }",
    b"{ a(b: \"\" \"\") }",
    b"{ a(b: \"\"c: \"\") }",
    b"{ a(b: \"\"\"\"\"\"c: \"\"\"\"\"\") }",
    b"{ a(b: \"\\u00e9\xc3\xa9\\u00E9\") }",
    b"{ a(b: \"\xc3\\u00a9\") }",
    b"{ a(b: \"\\u00c3\xa9\") }",
    b"{ a(b: \"\\u00c3\\u00a9\") }",
    b"{ a(b: \"\xe2\\\"\x98\x83\") }",
    b"{a(b:\"\\b\\f\\n\\r\\t\\u0008\\u000c\\u000a\\u000d\\u0009\\u001b\\u007f\\u0080\")}",
    b"{__typename __schema { types { name } } _ _1 _a A_ a1_B2 }",
    b"{ a1 1a }",
    b"{ a-b }",
    b"{ a.b }",
    b"{ a...b }",
    b"{ a{b}c{d}e }",
    b"{a{b{c}}}",
    b"{a(b:1){c}}",
    b"{a:b(c:$d)@e(f:[1,2]){g}}",
    b"query($a:Int=1,$b:[B!]!){a(b:$a)@c...D...on E{f}...@g{h}}",
    b"query Q{a}mutation M{b}subscription S{c}fragment F on T{d}type A{e:Int}",
    b"{a(b:1)c(d:2)}",
    b"{a(b:-1-2)}",
    b"{a(b:1-2)}",
    b"{a(b:1e1-2)}",
    b"{a(b:1e1e1)}",
    b"{a(b:1.0.0)}",
    b"{a(b:1..0)}",
    b"{a(b:1...0)}",
    b"{a(b:0.0)...F}",
    b"{a(b:0)...F}",
    b"{a(b:0...F)}",
    b"{a(b:1 ...F)}",
    b"{a(b:-0.0e-0)}",
    b"{a(b:00)}",
    b"{a(b:-00)}",
    b"{a(b:0e0)}",
    b"{a(b:0E0)}",
    b"{a(b:0e)}",
    b"{a(b:9e99999)}",
    b"{a(b:1e+ 1)}",
    b"{a(b:1 e1)}",
    b"{a(b:1 .5)}",
    b"{a(b:1$c)}",
    b"{a(b:1@c)}",
    b"{a(b:1#c\n)}",
    b"{a(b:1\"c\")}",
    b"{a(b:1[c])}",
    b"{a(b:1{c:1})}",
    b"{a(b:1!)}",
    # a number directly followed by "." is an "invalid number" even when the
    # following tokens would otherwise be swallowed / legal
    b"type A { a: Int = 1...x }",
    b"type A { a: Int = 1. }",
    b"type A { a: Int = 1.5.x }",
    b"scalar S 1...",
    b"scalar S 1_",
    b"scalar S 1a",
    b"scalar S 0x1",
    b"scalar S 1 ...",
    b"scalar S -",
    b"scalar S \"unterminated",
    b"scalar S \"\\q\"",
    b"scalar S \xff",
    b"scalar S ;",
    b"query () { a }",
    b"query ( ) { a }",
    b"mutation M() @d { a }",
    b"subscription(,){a}",
    b"query Q(#c\n) { a }",
    b"{ a(#c\n) }",
    b"{ a @d(,) }",
    b"{ a(b:1) (c:2) }",
    b"{ a @d @d @d(a:1)(b:2) }",
    b"{ a {b} {c} }",
    b"{ a: b {c} d: e(f:1) {g} }",
    b"{ ...F {a} }",
    b"{ ...F(a:1) }",
    b"{ ... on T on U {a} }",
    b"{ ... on T {a} {b} }",
    b"query Q Q { a }",
    b"query Q @d ($a: Int) { a }",
    b"query Q($a: Int) ($b: Int) { a }",
    b"query Q($a: Int @d) { a }",
    b"query Q($a: Int = 1 = 2) { a }",
    b"query Q($a: Int!= 1) { a }",
    b"query Q($a: [Int]= []) { a }",
    b"query Q($a:Int=1$b:Int=2){a}",
    b"query Q($a:Int=E$b:Int){a}",
    b"query Q($a:T={}$b:T=[]){a}",
    b"{a(b:$c:1)}",
    b"{a(b:$c d:$e)}",
    b"{a(b:[$c$d])}",
    b"{a(b:{c:$d e:$f})}",
    b"{a(b:E c:F)}",
    b"{a(b:E:1)}",
    b"{a(b:\"x\"c:\"y\")}",
    b"{a(b:\"\"\"x\"\"\"c:\"\"\"y\"\"\")}",
    b"{a(b:1 c:1.5 d:-1 e:-1.5e-5)}",
    b"{a(b:[1-1])}",
    b"{a(b:[1 -1])}",
    b"{a(b:[-1-1.5-2e2])}",
]

KEYWORD_NAMES = [
    b"query", b"mutation", b"subscription", b"fragment", b"on", b"type",
    b"null", b"true", b"false", b"schema", b"scalar", b"interface", b"union",
    b"enum", b"input", b"directive", b"extend", b"implements",
]
PLAIN_NAMES = [
    b"a", b"b", b"c", b"x", b"id", b"name", b"_", b"__typename", b"_a1",
    b"A", b"Foo", b"fooBar", b"BAZ_1", b"node", b"edges", b"T", b"Query",
    b"Int", b"String", b"a_very_long_identifier_name_0123456789",
]


# --------------------------------------------------------------------------
# (b) random grammar based generation
# --------------------------------------------------------------------------

class Gen:
    def __init__(self, rng):
        self.r = rng

    def name(self, kw=0.15):
        r = self.r
        if r.random() < kw:
            return r.choice(KEYWORD_NAMES)
        if r.random() < 0.1:
            first = r.choice(b"_abcxyzABCXYZ")
            rest = bytes(r.choice(b"_abcxyzABC0123456789")
                         for _ in range(r.randint(0, 8)))
            return bytes([first]) + rest
        return r.choice(PLAIN_NAMES)

    def sep(self):
        """separator between two tokens"""
        r = self.r
        x = r.random()
        if x < 0.70:
            return b" "
        if x < 0.78:
            return b"\n"
        if x < 0.82:
            return b"\r\n"
        if x < 0.85:
            return b"\r"
        if x < 0.89:
            return b", "
        if x < 0.92:
            return b"\t"
        if x < 0.95:
            return b"  \n  "
        if x < 0.98:
            return b" # " + self.comment_text() + r.choice([b"\n", b"\r", b"\r\n"])
        return b",,\n\r"

    def comment_text(self):
        r = self.r
        return r.choice([b"comment", b"", b"caf\xc3\xa9 \xe2\x98\x83",
                         b"\"quoted\" { } [ ] $ @", b"\xff\xfe raw", b"# ## #",
                         b"\t tab \x01 ctl", b"\xf0\x9f\x98\x80"])

    def join(self, toks):
        """join tokens, inserting separators (tight where legal, sometimes)"""
        r = self.r
        out = bytearray()
        prev = None
        for t in toks:
            if prev is not None:
                need = self.need_sep(prev, t)
                if need or r.random() < 0.55:
                    out += self.sep()
            out += t
            prev = t
        return bytes(out)

    WORDISH = frozenset(b"_abcdefghijklmnopqrstuvwxyzABCDEFGHIJKLMNOPQRSTUVWXYZ0123456789")
    WORDISH_NEXT = WORDISH | frozenset(b".-")

    @classmethod
    def need_sep(cls, a, b):
        if a[-1] in cls.WORDISH and b[0] in cls.WORDISH_NEXT:
            return True
        if a.endswith(b'"') and b.startswith(b'"'):
            return True
        if a.endswith(b".") and b.startswith(b"."):
            return True
        return False

    def int_(self):
        r = self.r
        return r.choice([b"0", b"1", b"-1", b"42", b"-0", b"1234567890",
                         b"99999999999999999999", str(r.randint(-10**6, 10**6)).encode()])

    def float_(self):
        r = self.r
        return r.choice([b"0.0", b"1.5", b"-1.5", b"1e10", b"1E10", b"1e+10",
                         b"1e-10", b"-0.0e-0", b"3.14159", b"6.02E23", b"1.0e0",
                         b"0e0", b"123.456e-78"])

    def string(self):
        r = self.r
        if r.random() < 0.3:
            return self.block_string()
        parts = [b'"']
        for _ in range(r.randint(0, 5)):
            x = r.random()
            if x < 0.35:
                parts.append(r.choice([b"hello", b"x", b" ", b"a b", b"\t", b"#", b"{}", b"'",
                                       b"$v", b"...", b"1.5"]))
            elif x < 0.55:
                parts.append(r.choice([b'\\"', b"\\\\", b"\\/", b"\\b", b"\\f", b"\\n", b"\\r", b"\\t"]))
            elif x < 0.75:
                cp = r.choice([0, 1, 0x1f, 0x20, 0x22, 0x5c, 0x41, 0x7f, 0x80, 0xe9, 0x7ff, 0x800,
                               0x20ac, 0xd7ff, 0xd800, 0xd83d, 0xdbff, 0xdc00, 0xde00, 0xdfff,
                               0xe000, 0xfffe, 0xffff, r.randint(0, 0xffff)])
                fmt = r.choice(["\\u%04x", "\\u%04X"])
                parts.append((fmt % cp).encode())
            else:
                parts.append(r.choice([b"\xc3\xa9", b"\xe2\x98\x83", b"\xf0\x9f\x98\x80", b"\xdf\xbf",
                                       b"\xe0\xa0\x80", b"\xef\xbf\xbf", b"\xf4\x8f\xbf\xbf",
                                       b"\xed\x9f\xbf", b"\xed\xa0\xbd", b"\xed\xb8\x80", b"\x7f"]))
        parts.append(b'"')
        return b"".join(parts)

    def block_string(self):
        r = self.r
        lines = []
        for _ in range(r.randint(0, 5)):
            indent = r.choice([b"", b" ", b"  ", b"    ", b"\t", b" \t", b"\t  ", b"      "])
            body = r.choice([b"", b"", b"text", b"more text", b"x", b'say "hi"', b'""', b'\\"""',
                             b"\\n not escape", b"\\", b"caf\xc3\xa9", b"\xe2\x98\x83 snow",
                             b"\xf0\x9f\x98\x80", b"# hash", b"{ } ( )", b"trailing   ", b"\x01\x7f"])
            lines.append(indent + body)
        eols = [b"\n", b"\n", b"\n", b"\r\n", b"\r"]
        out = bytearray(b'"""')
        for k, l in enumerate(lines):
            if k:
                out += r.choice(eols)
            out += l
        if out.endswith(b'"') and not out.endswith(b'\\"""'):
            out += b" "
        if out.endswith(b"\\"):
            out += b" "
        out += b'"""'
        return bytes(out)

    def value(self, depth, const):
        r = self.r
        x = r.random()
        if depth <= 0 and x > 0.8:
            x = r.random() * 0.8
        if x < 0.12:
            return [self.int_()]
        if x < 0.22:
            return [self.float_()]
        if x < 0.40:
            return [self.string()]
        if x < 0.48:
            return [r.choice([b"true", b"false"])]
        if x < 0.53:
            return [b"null"]
        if x < 0.63:
            return [self.name(0.2)]
        if x < 0.80:
            if const and r.random() < 0.9:
                return [self.int_()]
            return [b"$", self.name()] if r.random() < 0.1 else [b"$" + self.name()]
        if x < 0.90:
            out = [b"["]
            for _ in range(r.randint(0, 3)):
                out += self.value(depth - 1, const)
            return out + [b"]"]
        out = [b"{"]
        for _ in range(r.randint(0, 3)):
            out += [self.name(), b":"] + self.value(depth - 1, const)
        return out + [b"}"]

    def arguments(self, const=False):
        r = self.r
        if r.random() < 0.65:
            return []
        out = [b"("]
        for _ in range(r.randint(1, 3)):
            out += [self.name(), b":"] + self.value(2, const)
        return out + [b")"]

    def directives(self, const=False):
        r = self.r
        out = []
        while r.random() < 0.2:
            out += [b"@" + self.name()] if r.random() < 0.8 else [b"@", self.name()]
            out += self.arguments(const)
        return out

    def type_(self, depth=3):
        r = self.r
        if depth > 0 and r.random() < 0.3:
            out = [b"["] + self.type_(depth - 1) + [b"]"]
        else:
            out = [self.name()]
        if r.random() < 0.3:
            out.append(b"!")
        return out

    def selection_set(self, depth):
        r = self.r
        out = [b"{"]
        for _ in range(r.choice([1, 1, 2, 2, 3])):
            out += self.selection(depth)
        return out + [b"}"]

    def selection(self, depth):
        r = self.r
        x = r.random()
        if x < 0.12:
            return [b"...", self.name(0.1)] + self.directives()
        if x < 0.24 and depth > 0:
            out = [b"..."]
            if r.random() < 0.7:
                out += [b"on", self.name()]
            return out + self.directives() + self.selection_set(depth - 1)
        out = []
        if r.random() < 0.2:
            out += [self.name(), b":"]
        out += [self.name()] + self.arguments() + self.directives()
        if depth > 0 and r.random() < 0.35:
            out += self.selection_set(depth - 1)
        return out

    def operation(self):
        r = self.r
        if r.random() < 0.3:
            return self.selection_set(2)
        out = [r.choice([b"query", b"mutation", b"subscription"])]
        if r.random() < 0.7:
            out.append(self.name())
        if r.random() < 0.4:
            out.append(b"(")
            for _ in range(r.randint(1, 3)):
                out += [b"$" + self.name(), b":"] + self.type_()
                if r.random() < 0.4:
                    out += [b"="] + self.value(2, True)
            out.append(b")")
        out += self.directives()
        return out + self.selection_set(r.choice([1, 2, 2, 3]))

    def fragment(self):
        out = [b"fragment", self.name(0.05), b"on", self.name()]
        return out + self.directives() + self.selection_set(2)

    def field_def(self):
        r = self.r
        out = []
        if r.random() < 0.15:
            out.append(self.string())
        out.append(self.name(0.3))
        if r.random() < 0.3:
            out.append(b"(")
            for _ in range(r.randint(1, 2)):
                out += [self.name(0.3), b":"] + self.type_()
                if r.random() < 0.3:
                    out += [b"="] + self.value(1, True)
            out.append(b")")
        out += [b":"] + self.type_() + self.directives(True)
        return out

    def type_system(self):
        r = self.r
        out = []
        if r.random() < 0.25:
            out.append(self.string())
        if r.random() < 0.12:
            out.append(b"extend")
        k = r.choice([b"schema", b"scalar", b"type", b"interface", b"union", b"enum", b"input",
                      b"directive"])
        out.append(k)
        if k == b"schema":
            out += self.directives(True) + [b"{"]
            for op in r.sample([b"query", b"mutation", b"subscription"], r.randint(1, 3)):
                out += [op, b":", self.name(0.2)]
            out.append(b"}")
        elif k == b"scalar":
            out += [self.name(0.1)] + self.directives(True)
        elif k in (b"type", b"interface", b"input"):
            out.append(self.name(0.1))
            if k == b"type" and r.random() < 0.3:
                out.append(b"implements")
                if r.random() < 0.2:
                    out.append(b"&")
                out.append(self.name(0.2))
                while r.random() < 0.3:
                    out += [b"&", self.name(0.2)]
            out += self.directives(True)
            if r.random() < 0.85:
                out.append(b"{")
                for _ in range(r.randint(1, 3)):
                    out += self.field_def()
                out.append(b"}")
        elif k == b"union":
            out += [self.name(0.1)] + self.directives(True)
            if r.random() < 0.9:
                out.append(b"=")
                if r.random() < 0.2:
                    out.append(b"|")
                out.append(self.name(0.2))
                while r.random() < 0.5:
                    out += [b"|", self.name(0.2)]
        elif k == b"enum":
            out += [self.name(0.1)] + self.directives(True) + [b"{"]
            for _ in range(r.randint(1, 4)):
                out += [self.name(0.2)] + self.directives(True)
            out.append(b"}")
        else:  # directive
            out += [b"@" + self.name(0.2)]
            if r.random() < 0.4:
                out.append(b"(")
                for _ in range(r.randint(1, 2)):
                    out += [self.name(0.3), b":"] + self.type_()
                out.append(b")")
            out.append(b"on")
            if r.random() < 0.2:
                out.append(b"|")
            out.append(r.choice([b"FIELD", b"QUERY", b"FRAGMENT_SPREAD", b"type", b"OBJECT"]))
            while r.random() < 0.4:
                out += [b"|", r.choice([b"FIELD", b"QUERY", b"ENUM", b"enum", b"SCHEMA"])]
        return out

    def document(self):
        r = self.r
        toks = []
        ts = r.random() < 0.3
        for _ in range(r.choice([1, 1, 1, 1, 2, 3])):
            x = r.random()
            if ts and x < 0.6:
                toks += self.type_system()
            elif x < 0.75:
                toks += self.operation()
            else:
                toks += self.fragment()
        doc = self.join(toks)
        if r.random() < 0.03:
            doc = b"\xef\xbb\xbf" + doc
        if r.random() < 0.1:
            doc = self.sep() + doc
        if r.random() < 0.1:
            doc = doc + self.sep()
        return doc


# --------------------------------------------------------------------------
# (c) mutations
# --------------------------------------------------------------------------

TOKEN_RE = re.compile(
    rb'[ \t\r\n,]+|#[^\r\n]*|[_A-Za-z][_0-9A-Za-z]*|"""(?:\\"""|(?!""").)*"""'
    rb'|"(?:\\.|[^"\\\r\n])*"|-?[0-9]+(?:\.[0-9]+)?(?:[eE][+-]?[0-9]+)?|\.\.\.|.',
    re.S)

INTERESTING = [bytes([c]) for c in range(0x00, 0x21)] + [
    b"\x7f", b"\x80", b"\x8f", b"\x90", b"\x9f", b"\xa0", b"\xbf", b"\xc0", b"\xc1", b"\xc2",
    b"\xc3", b"\xdf", b"\xe0", b"\xe1", b"\xec", b"\xed", b"\xee", b"\xef", b"\xf0", b"\xf1",
    b"\xf3", b"\xf4", b"\xf5", b"\xf8", b"\xfe", b"\xff",
    b'"', b'"', b'"', b'""', b'"""', b'"""', b'\\"""', b"\\", b"\\\\", b"\\u", b"\\ud800",
    b"\\udc00", b"\\u0000", b"\\n", b"\\x",
    b"{", b"}", b"[", b"]", b"(", b")", b"$", b":", b"@", b"!", b"|", b"&", b"=", b"#", b".",
    b"..", b"...", b",", b"-", b"+", b"0", b"1", b"9", b"e", b"E", b"_", b"a", b"on", b" on ",
    b" query ", b" fragment ", b" type ", b" extend ", b"\r\n", b"\n\r", b"\xef\xbb\xbf",
    b"\xc3\xa9", b"\xe2\x98\x83", b"\xf0\x9f\x98\x80", b"\xed\xa0\x80", b"\xed\xb0\x80",
    b"1.", b".5", b"1e", b"0x", b"00", b"-", b"'", b";", b"?", b"%", b"*", b"/", b"<", b">",
    b"^", b"`", b"~",
]


def mutate_tokens(r, doc):
    toks = TOKEN_RE.findall(doc)
    if not toks:
        return doc
    for _ in range(r.choice([1, 1, 1, 2, 3])):
        if not toks:
            break
        op = r.randrange(5)
        i = r.randrange(len(toks))
        if op == 0:
            del toks[i]
        elif op == 1:
            toks.insert(i, toks[i])
        elif op == 2:
            j = r.randrange(len(toks))
            toks[i], toks[j] = toks[j], toks[i]
        elif op == 3:
            j = r.randrange(len(toks))
            toks[i] = toks[j]
        else:
            toks.insert(i, r.choice(INTERESTING))
    return b"".join(toks)


def mutate_bytes(r, doc):
    b = bytearray(doc)
    for _ in range(r.choice([1, 1, 1, 2, 2, 3, 5])):
        op = r.randrange(6)
        pos = r.randrange(len(b) + 1)
        if op == 0:
            b[pos:pos] = r.choice(INTERESTING)
        elif op == 1 and b:
            del b[pos % len(b)]
        elif op == 2 and b:
            b[pos % len(b)] = r.randrange(256)
        elif op == 3 and b:
            b[pos % len(b)] = r.choice(INTERESTING)[0]
        elif op == 4 and b:
            q = r.randrange(len(b) + 1)
            lo, hi = min(pos, q), max(pos, q)
            if hi - lo < 40:
                del b[lo:hi]
        elif op == 5 and b:
            q = r.randrange(len(b) + 1)
            lo, hi = min(pos, q), max(pos, q)
            if hi - lo < 40:
                b[pos:pos] = b[lo:hi]
    return bytes(b)


# --------------------------------------------------------------------------
# (d) soups
# --------------------------------------------------------------------------

PUNCT_SOUP = [b"{", b"}", b"{", b"}", b"[", b"]", b"(", b")", b"$", b":", b"@", b"!", b"|", b"&",
              b"=", b".", b"...", b",", b"#", b'"', b'"""', b"\\", b" ", b" ", b"\n", b"\r", b"a",
              b"b", b"on", b"1", b"-", b"e", b"_", b"query", b"fragment", b"type", b"extend",
              b"null", b"true", b"0.5"]
NUM_SOUP = b"0123456789012..eE+--_ax ,)\n"
STR_SOUP = [b'"', b"\\", b"\\", b"u", b"n", b"t", b"/", b"b", b"d", b"8", b"0", b"c", b"f", b"F",
            b"D", b" ", b"x", b"\t", b"\n", b"\r", b"\x01", b"\x7f", b"\xc3\xa9", b"\xe2\x98\x83",
            b"\xf0\x9f\x98\x80", b"\xed\xa0\x80", b"\xed\xb0\x80", b"\xed", b"\xa0", b"\x80",
            b"\xc3", b"\xe2", b"\xf0", b"\xff", b"\\ud83d", b"\\ude00", b"\\u00e9", b"\\u0000"]
BLK_SOUP = [b'"', b'"', b'""', b'"""', b'\\"""', b"\\", b" ", b" ", b"  ", b"\t", b"\n", b"\n",
            b"\r", b"\r\n", b"a", b"bc", b"\xc3\xa9", b"\xe2\x98\x83", b"\xed\xa0\x80", b"\xff",
            b"\x01", b"#", b"}", b")"]
UTF8_LEADS = [0x7f, 0x80, 0xbf, 0xc0, 0xc1, 0xc2, 0xdf, 0xe0, 0xe1, 0xec, 0xed, 0xee, 0xef, 0xf0,
              0xf1, 0xf3, 0xf4, 0xf5, 0xf7, 0xf8, 0xfb, 0xfc, 0xfd, 0xfe, 0xff]
UTF8_CONTS = [0x00 + 0x22, 0x41, 0x7f, 0x80, 0x8f, 0x90, 0x9f, 0xa0, 0xaf, 0xb0, 0xbf, 0xc0, 0xc2,
              0xed, 0xff]

CONTEXTS = [
    (b"{a(b:", b")}"),
    (b"{a(b:[", b"])}"),
    (b"{a(b:{c:", b"})}"),
    (b"query($v:T=", b"){a}"),
    (b"", b""),
    (b"{a @d(x:", b") b}"),
    (b"", b" type A {a:Int}"),
    (b"type A {a(b:T=", b"):Int} scalar S"),
    (b"{a #", b"\n}"),
]


def soup(r, alphabet, lo, hi):
    n = r.randint(lo, hi)
    if isinstance(alphabet, (bytes, bytearray)):
        return bytes(r.choice(alphabet) for _ in range(n))
    return b"".join(r.choice(alphabet) for _ in range(n))


def utf8_probe(r):
    seq = bytearray()
    for _ in range(r.randint(1, 3)):
        seq.append(r.choice(UTF8_LEADS))
        for _ in range(r.randint(0, 3)):
            seq.append(r.choice(UTF8_CONTS))
    return bytes(seq)


# --------------------------------------------------------------------------
# (e) deep nesting
# --------------------------------------------------------------------------

def deep_inputs():
    out = []
    for n in (1, 10, 399, 400, 401, 5000, 200000):
        big = n >= 200000
        out.append(b"{a" * n + b"}" * n)
        out.append(b"{a(b:" + b"[" * n + b"]" * n + b")}")
        out.append(b"query($v:" + b"[" * n + b"Int" + b"]" * n + b"){a}")
        out.append(b"type A " + b"{" * n + b"a" + b"}" * n + b" {b}")
        out.append(b"{a" * n)
        out.append(b"[" * n)
        if big:
            continue
        out.append(b"{a(b:" + b"{c:" * n + b"1" + b"}" * n + b")}")
        out.append(b"query($v:" + b"[" * n + b"Int" + b"]!" * n + b"){a}")
        out.append(b"query($v:T=" + b"[" * n + b"]" * n + b"){a}")
        out.append(b"{..." * n + b"{a}" + b"}" * n)
        out.append(b"{...on T" * n + b"{a}" + b"}" * n)
        out.append(b"fragment F on T " + b"{a" * n + b"}" * n)
        out.append(b"{a(b:" + b"[{c:" * n + b"1" + b"}]" * n + b")}")
        out.append(b"{a(b:" + b"[" * n)
        out.append(b"{a(b:" + b"{c:" * n)
        out.append(b"query($v:" + b"[" * n)
        out.append(b"{a" * n + b"}" * (n - 1))
        out.append(b"{a" * n + b"}" * (n + 1))
        out.append(b"}" * n)
        out.append(b"]" * n)
        out.append(b"type A " + b"}" * n + b"{" * n + b" query {a}")
        out.append(b"{a @d(x:" + b"[" * n + b"]" * n + b")}")
        out.append(b"{a}" * n)
        out.append(b"{" + b"a " * n + b"}")
        out.append(b"{a(b:[" + b"1 " * n + b"])}")
        out.append(b"{a(b:\"" + b"\\ud83d\\ude00" * n + b"\")}")
        out.append(b"{a(b:\"\"\"" + b"\n  x" * n + b"\"\"\")}")
        out.append(b"#" * n + b"\n{a}")
        out.append(b"\n" * n + b"{a}")
        out.append(b"{" + b"a" * n + b"}")
        out.append(b"{a(b:" + b"1" * n + b")}")
    # combined selection-set + value depth around the shared bound
    for s, v in ((200, 199), (200, 200), (200, 201), (399, 1), (399, 2), (400, 0), (400, 1),
                 (1, 399), (1, 400), (398, 2), (398, 3)):
        out.append(b"{a" * (s - 1) + b"{a(b:" + b"[" * v + b"]" * v + b")" + b"}" * s)
        out.append(b"{a" * (s - 1) + b"{a(b:" + b"{c:" * v + b"1" + b"}" * v + b")" + b"}" * s)
    # depth must be released properly: many siblings at moderate depth
    out.append(b"{" + (b"a" + b"{a" * 300 + b"}" * 300 + b" ") * 5 + b"}")
    out.append(b"{a(b:[" + (b"[" * 390 + b"]" * 390) * 5 + b"])}")
    out.append(b"query(" + (b"$v:" + b"[" * 400 + b"T" + b"]" * 400 + b" ") * 3 + b"){a}")
    return out


# --------------------------------------------------------------------------
# corpus assembly
# --------------------------------------------------------------------------

def build_corpus(n, seed):
    r = random.Random(seed)
    g = Gen(r)
    seen = set()
    corpus = []
    counts = {}

    def add(cat, doc):
        if doc in seen:
            return False
        seen.add(doc)
        corpus.append(doc)
        counts[cat] = counts.get(cat, 0) + 1
        return True

    def fill(cat, quota, fn):
        tries = 0
        have = 0
        while have < quota and tries < quota * 6:
            tries += 1
            if add(cat, fn()):
                have += 1

    for d in HAND:
        add("hand", d)
    for d in deep_inputs():
        add("deep", d)

    # every prefix of a selection of documents
    rich = [d for d in HAND if 25 <= len(d) <= 220]
    r2 = random.Random(seed ^ 0x5EED)
    for d in r2.sample(rich, min(len(rich), 60)):
        for k in range(len(d)):
            add("prefix", d[:k])

    valid = []

    def gen_valid():
        d = g.document()
        valid.append(d)
        return d

    fill("generated", int(n * 0.22), gen_valid)
    base = HAND + valid

    fill("mut_token", int(n * 0.17), lambda: mutate_tokens(r, r.choice(base)))
    fill("mut_byte", int(n * 0.21), lambda: mutate_bytes(r, r.choice(base)))

    def splice():
        a, b = r.choice(base), r.choice(base)
        return a[:r.randrange(len(a) + 1)] + b[r.randrange(len(b) + 1):]

    fill("splice", int(n * 0.04), splice)
    for d in r.sample(valid, min(len(valid), 40)):
        for k in range(0, len(d)):
            add("prefix", d[:k])

    fill("rand_bytes", int(n * 0.05),
         lambda: bytes(r.randrange(256) for _ in range(r.randint(1, 24))))

    def ctx(body):
        pre, post = r.choice(CONTEXTS)
        return pre + body + post

    fill("punct_soup", int(n * 0.10), lambda: soup(r, PUNCT_SOUP, 1, 14))
    fill("num_soup", int(n * 0.06), lambda: ctx(soup(r, NUM_SOUP, 1, 9)))
    fill("str_soup", int(n * 0.08), lambda: ctx(b'"' + soup(r, STR_SOUP, 0, 8) + b'"'))
    fill("blk_soup", int(n * 0.06), lambda: ctx(b'"""' + soup(r, BLK_SOUP, 0, 12) + b'"""'))

    def utf8_case():
        q = r.choice([b'"', b'"""', b"#", b""])
        body = utf8_probe(r)
        if q == b"#":
            return b"{a #" + body + b"\n}"
        return ctx(q + body + q)

    fill("utf8", int(n * 0.05), utf8_case)

    # systematic: every lead byte >= 0x80 with boundary continuation bytes,
    # raw in a quoted string, in a block string and bare
    conts2 = [None, 0x7f, 0x80, 0x8f, 0x90, 0x9f, 0xa0, 0xbf, 0xc0]
    conts3 = [None, 0x80, 0xbf, 0x41]
    for lead in range(0x80, 0x100):
        for c1 in conts2:
            for c2 in conts3:
                for c3 in ((None, 0x80, 0xbf) if lead >= 0xf0 and c2 is not None else (None,)):
                    seq = bytes(x for x in (lead, c1, c2, c3) if x is not None)
                    add("utf8_enum", b'{a(b:"' + seq + b'")}')
                    add("utf8_enum", b'{a(b:"""' + seq + b'""")}')
    for b0 in range(1, 256):
        add("byte_enum", b"{a " + bytes([b0]) + b" b}")
        add("byte_enum", bytes([b0]))
        add("byte_enum", b'{a(b:"' + bytes([b0]) + b'")}')
        add("byte_enum", b'{a(b:"""' + bytes([b0]) + b'""")}')
        add("byte_enum", b'{a(b:"\\' + bytes([b0]) + b'")}')
        add("byte_enum", b"{a #" + bytes([b0]) + b"\n b}")
        add("byte_enum", b"{a(b:1" + bytes([b0]) + b")}")
        add("byte_enum", b"{a(b:1 " + bytes([b0]) + b")}")
        add("byte_enum", b"type A " + bytes([b0]) + b" query {a}")
    for cp in list(range(0, 0x100)) + list(range(0xd7f0, 0xe010)) + [0xfffe, 0xffff, 0x0800, 0x07ff]:
        add("escape_enum", b'{a(b:"\\u%04x")}' % cp)
        add("escape_enum", b'{a(b:"\\ud83d\\u%04X")}' % cp)
    return corpus, counts


# --------------------------------------------------------------------------

ERR_RE = re.compile(rb"^[0-9]+\.[0-9]+(-([0-9]+\.)?[0-9]+)?: [^\x00-\x1f]+$")


def pairs_hook(pairs):
    return tuple(pairs)


def deep_eq(a, b):
    """a == b for nested tuples/lists/scalars, without recursion (the C-level
    comparison overflows the interpreter's recursion guard on the deepest
    accepted documents)."""
    try:
        return a == b
    except RecursionError:
        pass
    stack = [(a, b)]
    while stack:
        x, y = stack.pop()
        if type(x) is not type(y):
            return False
        if isinstance(x, (tuple, list)):
            if len(x) != len(y):
                return False
            stack.extend(zip(x, y))
        elif x != y:
            return False
    return True


_CORPUS = []
_SHIM = None


def _work(bounds):
    """Compare corpus[start:end]; runs in a (forked) worker process."""
    global _SHIM
    if _SHIM is None:
        _SHIM = Shim()
    shim = _SHIM
    start, end = bounds
    equal = both_reject = accepted = rejected = 0
    disagreements = []
    crcs = []
    for idx in range(start, end):
        src = _CORPUS[idx]
        s_json, s_err = shim.parse(src)
        if s_json is not None:
            accepted += 1
            crcs.append(zlib.crc32(b"A" + s_json))
        else:
            rejected += 1
            crcs.append(zlib.crc32(b"R" + s_err))
        try:
            p_json = pyparser.parse_to_json(src)
            p_err = None
        except pyparser.GQLSyntaxError as e:
            p_json = None
            p_err = str(e)
        except Exception as e:  # pyparser must never fail any other way
            disagreements.append((idx, src, "pyparser raised %r" % (e,),
                                  "shim: %r" % ((s_json or s_err)[:200],)))
            continue
        if s_json is None and p_json is None:
            if not ERR_RE.match(s_err):
                disagreements.append((idx, src, "shim error message has bad shape: %r" % s_err,
                                      "pyparser: %s" % p_err))
            else:
                both_reject += 1
            continue
        if s_json is None or p_json is None:
            disagreements.append((
                idx, src,
                "shim: " + ("ACCEPT %r" % s_json[:200] if s_json is not None else "REJECT %r" % s_err),
                "pyparser: " + ("ACCEPT %r" % p_json[:200] if p_json is not None else "REJECT %s" % p_err)))
            continue
        try:
            a = json.loads(s_json, object_pairs_hook=pairs_hook)
        except Exception as e:
            disagreements.append((idx, src, "shim JSON does not load: %r" % (e,), repr(s_json[:300])))
            continue
        b = json.loads(p_json, object_pairs_hook=pairs_hook)
        if deep_eq(a, b):
            equal += 1
        else:
            disagreements.append((idx, src, "shim: %r" % s_json[:400], "pyparser: %r" % p_json[:400]))
    return equal, both_reject, accepted, rejected, struct.pack("<%dI" % len(crcs), *crcs), disagreements


def run(args):
    global _CORPUS
    t0 = time.time()
    build("so")
    corpus, counts = build_corpus(args.n, args.seed)
    _CORPUS = corpus
    t1 = time.time()
    print("corpus: %d inputs in %.1fs  %s" % (
        len(corpus), t1 - t0,
        " ".join("%s=%d" % kv for kv in sorted(counts.items()))), flush=True)

    step = 400
    chunks = [(i, min(i + step, len(corpus))) for i in range(0, len(corpus), step)]
    jobs = args.jobs if args.jobs > 0 else min(8, os.cpu_count() or 1)
    if jobs > 1:
        import multiprocessing
        with multiprocessing.get_context("fork").Pool(jobs) as pool:
            results = pool.map(_work, chunks, chunksize=1)
    else:
        results = [_work(c) for c in chunks]
    equal = sum(x[0] for x in results)
    both_reject = sum(x[1] for x in results)
    accepted = sum(x[2] for x in results)
    rejected = sum(x[3] for x in results)
    crc = zlib.crc32(b"".join(x[4] for x in results))
    disagreements = [d for x in results for d in x[5]]
    t2 = time.time()
    print("compared in %.1fs (%d jobs)" % (t2 - t1, jobs))
    print("inputs=%d both-accept-equal=%d both-reject=%d disagreements=%d" % (
        len(corpus), equal, both_reject, len(disagreements)), flush=True)

    asan_inputs = 0
    asan_reports = 0
    if args.asan:
        build("asan")
        path = os.path.join(SHIM_DIR, "corpus.%d.bin" % os.getpid())
        try:
            with open(path, "wb") as f:
                for src in corpus:
                    f.write(struct.pack("<I", len(src)))
                    f.write(src)
            env = dict(os.environ)
            env["ASAN_OPTIONS"] = "detect_leaks=1:abort_on_error=0:exitcode=99:allocator_may_return_null=1"
            env["UBSAN_OPTIONS"] = "print_stacktrace=1:halt_on_error=1:exitcode=98"
            p = subprocess.run([os.path.join(SHIM_DIR, "gqlshim_asan"), path],
                               stdout=subprocess.PIPE, stderr=subprocess.PIPE, env=env)
        finally:
            try:
                os.unlink(path)
            except OSError:
                pass
        out = p.stdout.decode("utf-8", "replace").strip()
        errtxt = p.stderr.decode("utf-8", "replace")
        print("asan driver: exit=%d %s (%.1fs)" % (p.returncode, out, time.time() - t2))
        m = re.search(r"inputs=(\d+) accepted=(\d+) rejected=(\d+) crc32=([0-9a-f]{8})", out)
        asan_reports = len(re.findall(r"ERROR: (?:Address|Leak)Sanitizer|runtime error:", errtxt))
        if p.returncode != 0 and asan_reports == 0:
            asan_reports = 1
        if m:
            asan_inputs = int(m.group(1))
            got = (int(m.group(1)), int(m.group(2)), int(m.group(3)), int(m.group(4), 16))
            want = (len(corpus), accepted, rejected, crc & 0xffffffff)
            if got != want:
                print("asan driver results differ from the .so: got %r want %r" % (got, want))
                asan_reports += 1
        elif p.returncode == 0:
            print("asan driver: unparsable summary")
            asan_reports += 1
        if errtxt.strip():
            print("asan driver stderr (first 60 lines):")
            print("\n".join(errtxt.splitlines()[:60]))
        print("asan_inputs=%d asan_reports=%d" % (asan_inputs, asan_reports))

    for idx, src, x, y in disagreements[:20]:
        shown = src if len(src) <= 400 else src[:200] + b"...<%d bytes>..." % len(src) + src[-100:]
        print("DISAGREEMENT #%d input=%r\n    %s\n    %s" % (idx, shown, x, y))

    if args.summary:
        with open(args.summary, "w") as f:
            json.dump({"inputs": len(corpus), "equal": equal, "both_reject": both_reject,
                       "disagreements": len(disagreements), "asan_inputs": asan_inputs,
                       "asan_reports": asan_reports}, f)
            f.write("\n")
    ok = not disagreements and asan_reports == 0 and equal + both_reject == len(corpus)
    print("total %.1fs: %s" % (time.time() - t0, "OK" if ok else "FAIL"))
    return 0 if ok else 1


def main():
    ap = argparse.ArgumentParser(description=__doc__)
    ap.add_argument("--n", type=int, default=215000,
                    help="scale of the random part of the corpus (default %(default)s)")
    ap.add_argument("--seed", type=int, default=20260927)
    ap.add_argument("--asan", action="store_true",
                    help="also run the corpus through the ASan/UBSan driver")
    ap.add_argument("--summary", metavar="FILE")
    ap.add_argument("--jobs", type=int, default=0,
                    help="worker processes for the comparison (default: min(8, cpus))")
    sys.exit(run(ap.parse_args()))


if __name__ == "__main__":
    main()
