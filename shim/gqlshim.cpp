// gqlshim.cpp -- drop-in replacement for the C ABI of libgraphqlparser, as
// consumed by tartiflette/language/parsers/libgraphqlparser/parser.py.
//
// Reference semantics: vt/pyparser.py (parse_to_json).  For every input this
// file must accept/reject exactly like pyparser and, when accepting, produce a
// JSON document that json.loads() to the same value.  The code below mirrors
// pyparser function by function (lex(), Parser.*); keep both in sync.
//
// Exported symbols (and nothing else):
//   graphql_parse_string, graphql_error_free, graphql_node_free,
//   graphql_ast_to_json
//
// Ownership: the JSON text is rendered eagerly by graphql_parse_string and is
// owned by the returned handle; graphql_ast_to_json returns a pointer into the
// handle which stays valid until graphql_node_free.  Error strings are
// malloc'ed and released by graphql_error_free.
//
// No global mutable state: all functions are re-entrant and thread-safe.

#include <cstddef>
#include <cstdint>
#include <cstdlib>
#include <cstring>
#include <deque>
#include <new>
#include <string>
#include <string_view>
#include <vector>

#if defined(__GNUC__)
#define GQLSHIM_EXPORT extern "C" __attribute__((visibility("default")))
#else
#define GQLSHIM_EXPORT extern "C"
#endif

struct GraphQLAstNode {
  std::string json;
};

namespace {

// Must stay identical to MAX_DEPTH in vt/pyparser.py.
constexpr int kMaxDepth = 400;

struct SyntaxError {
  std::string msg;
};

enum TokKind : uint8_t {
  T_EOF,
  T_NAME,
  T_INT,
  T_FLOAT,
  T_STRING,
  T_SPREAD,    // ...
  T_BANG,      // !
  T_DOLLAR,    // $
  T_LPAREN,    // (
  T_RPAREN,    // )
  T_COLON,     // :
  T_EQ,        // =
  T_AT,        // @
  T_LBRACKET,  // [
  T_RBRACKET,  // ]
  T_LBRACE,    // {
  T_PIPE,      // |
  T_RBRACE,    // }
  T_AMP,       // &
};

struct Tok {
  TokKind kind;
  bool in_pool;  // value lives in the string pool (STRING) or in the source
  size_t sl, sc, el, ec;
  size_t off, len;  // value slice
};

inline bool is_name_start(unsigned char c) {
  return c == '_' || (c >= 'A' && c <= 'Z') || (c >= 'a' && c <= 'z');
}
inline bool is_digit(unsigned char c) { return c >= '0' && c <= '9'; }
inline bool is_name_cont(unsigned char c) {
  return is_name_start(c) || is_digit(c);
}
inline bool is_ascii_alnum(unsigned char c) {
  return is_digit(c) || (c >= 'A' && c <= 'Z') || (c >= 'a' && c <= 'z');
}
inline int hex_val(unsigned char c) {
  if (c >= '0' && c <= '9') return c - '0';
  if (c >= 'a' && c <= 'f') return c - 'a' + 10;
  if (c >= 'A' && c <= 'F') return c - 'A' + 10;
  return -1;
}

std::string pos_str(size_t line, size_t col) {
  return std::to_string(line) + "." + std::to_string(col);
}

// Validates UTF-8 exactly like CPython's bytes.decode("utf-8") (strict), or,
// with allow_surrogates, like bytes.decode("utf-8", "surrogatepass"): the only
// extra sequences accepted are well-formed 3-byte encodings of U+D800..U+DFFF.
bool valid_utf8(const std::string& s, bool allow_surrogates) {
  const size_t n = s.size();
  size_t i = 0;
  auto cont = [&](size_t k, unsigned lo, unsigned hi) {
    if (k >= n) return false;
    unsigned char c = static_cast<unsigned char>(s[k]);
    return c >= lo && c <= hi;
  };
  while (i < n) {
    unsigned char c = static_cast<unsigned char>(s[i]);
    if (c < 0x80) {
      i += 1;
    } else if (c >= 0xC2 && c <= 0xDF) {
      if (!cont(i + 1, 0x80, 0xBF)) return false;
      i += 2;
    } else if (c == 0xE0) {
      if (!cont(i + 1, 0xA0, 0xBF) || !cont(i + 2, 0x80, 0xBF)) return false;
      i += 3;
    } else if (c == 0xED) {
      if (!cont(i + 1, 0x80, allow_surrogates ? 0xBF : 0x9F) ||
          !cont(i + 2, 0x80, 0xBF))
        return false;
      i += 3;
    } else if (c >= 0xE1 && c <= 0xEF) {  // E1..EC, EE, EF (ED handled above)
      if (!cont(i + 1, 0x80, 0xBF) || !cont(i + 2, 0x80, 0xBF)) return false;
      i += 3;
    } else if (c == 0xF0) {
      if (!cont(i + 1, 0x90, 0xBF) || !cont(i + 2, 0x80, 0xBF) ||
          !cont(i + 3, 0x80, 0xBF))
        return false;
      i += 4;
    } else if (c >= 0xF1 && c <= 0xF3) {
      if (!cont(i + 1, 0x80, 0xBF) || !cont(i + 2, 0x80, 0xBF) ||
          !cont(i + 3, 0x80, 0xBF))
        return false;
      i += 4;
    } else if (c == 0xF4) {
      if (!cont(i + 1, 0x80, 0x8F) || !cont(i + 2, 0x80, 0xBF) ||
          !cont(i + 3, 0x80, 0xBF))
        return false;
      i += 4;
    } else {
      return false;  // 80..BF, C0, C1, F5..FF
    }
  }
  return true;
}

inline bool all_blank(std::string_view l) {
  for (char ch : l)
    if (ch != ' ' && ch != '\t') return false;
  return true;
}

// pyparser._block_string_value, on bytes (all characters it inspects are
// ASCII, so working on the UTF-8 bytes is equivalent).
std::string block_string_value(const std::string& raw) {
  std::vector<std::string_view> lines;
  {
    const std::string_view r(raw);
    size_t start = 0, i = 0;
    const size_t n = r.size();
    while (i < n) {
      if (r[i] == '\r') {
        lines.push_back(r.substr(start, i - start));
        i += (i + 1 < n && r[i + 1] == '\n') ? 2 : 1;
        start = i;
      } else if (r[i] == '\n') {
        lines.push_back(r.substr(start, i - start));
        i += 1;
        start = i;
      } else {
        i += 1;
      }
    }
    lines.push_back(r.substr(start));
  }
  bool have_common = false;
  size_t common = 0;
  for (size_t k = 1; k < lines.size(); k++) {
    const std::string_view l = lines[k];
    size_t indent = 0;
    while (indent < l.size() && (l[indent] == ' ' || l[indent] == '\t'))
      indent++;
    if (indent < l.size() && (!have_common || indent < common)) {
      have_common = true;
      common = indent;
    }
  }
  if (have_common && common != 0) {
    for (size_t k = 1; k < lines.size(); k++) {
      if (lines[k].size() <= common)
        lines[k] = std::string_view();
      else
        lines[k] = lines[k].substr(common);
    }
  }
  size_t first = 0, last = lines.size();
  while (first < last && all_blank(lines[first])) first++;
  while (last > first && all_blank(lines[last - 1])) last--;
  std::string out;
  for (size_t k = first; k < last; k++) {
    if (k != first) out.push_back('\n');
    out.append(lines[k].data(), lines[k].size());
  }
  return out;
}

void append_utf8_bmp(std::string& buf, unsigned cp) {
  // cp <= 0xFFFF; surrogates are encoded as 3 bytes ("surrogatepass").
  if (cp < 0x80) {
    buf.push_back(static_cast<char>(cp));
  } else if (cp < 0x800) {
    buf.push_back(static_cast<char>(0xC0 | (cp >> 6)));
    buf.push_back(static_cast<char>(0x80 | (cp & 0x3F)));
  } else {
    buf.push_back(static_cast<char>(0xE0 | (cp >> 12)));
    buf.push_back(static_cast<char>(0x80 | ((cp >> 6) & 0x3F)));
    buf.push_back(static_cast<char>(0x80 | (cp & 0x3F)));
  }
}

// pyparser.lex().  `src` has `n` bytes and no NUL among them.
void lex(const char* src, size_t n, std::vector<Tok>& toks, std::string& pool) {
  auto at = [&](size_t k) -> unsigned char {
    // Byte at k, or 0 past the end (the source itself contains no NUL, so 0
    // never compares equal to a real character test below).
    return k < n ? static_cast<unsigned char>(src[k]) : 0;
  };
  auto push = [&](TokKind kind, bool in_pool, size_t sl, size_t sc, size_t el,
                  size_t ec, size_t off, size_t len) {
    Tok t;
    t.kind = kind;
    t.in_pool = in_pool;
    t.sl = sl;
    t.sc = sc;
    t.el = el;
    t.ec = ec;
    t.off = off;
    t.len = len;
    toks.push_back(t);
  };

  size_t i = 0, line = 1, col = 1;
  if (n >= 3 && at(0) == 0xEF && at(1) == 0xBB && at(2) == 0xBF) {
    i = 3;
    col = 4;
  }
  while (i < n) {
    const unsigned char c = at(i);
    if (c == ' ' || c == '\t' || c == ',') {
      i++;
      col++;
      continue;
    }
    if (c == '\n') {
      i++;
      line++;
      col = 1;
      continue;
    }
    if (c == '\r') {
      i++;
      if (at(i) == '\n') i++;
      line++;
      col = 1;
      continue;
    }
    if (c == '#') {
      while (i < n && at(i) != '\n' && at(i) != '\r') {
        i++;
        col++;
      }
      continue;
    }
    if (c == '.' && at(i + 1) == '.' && at(i + 2) == '.') {
      push(T_SPREAD, false, line, col, line, col + 3, i, 3);
      i += 3;
      col += 3;
      continue;
    }
    {
      TokKind pk = T_EOF;
      switch (c) {
        case '!': pk = T_BANG; break;
        case '$': pk = T_DOLLAR; break;
        case '(': pk = T_LPAREN; break;
        case ')': pk = T_RPAREN; break;
        case ':': pk = T_COLON; break;
        case '=': pk = T_EQ; break;
        case '@': pk = T_AT; break;
        case '[': pk = T_LBRACKET; break;
        case ']': pk = T_RBRACKET; break;
        case '{': pk = T_LBRACE; break;
        case '|': pk = T_PIPE; break;
        case '}': pk = T_RBRACE; break;
        case '&': pk = T_AMP; break;
        default: break;
      }
      if (pk != T_EOF) {
        push(pk, false, line, col, line, col + 1, i, 1);
        i++;
        col++;
        continue;
      }
    }
    if (is_name_start(c)) {
      size_t j = i + 1;
      while (j < n && is_name_cont(at(j))) j++;
      const size_t len = j - i;
      push(T_NAME, false, line, col, line, col + len, i, len);
      i = j;
      col += len;
      continue;
    }
    // -?(0|[1-9][0-9]*)(\.[0-9]+)?([eE][+-]?[0-9]+)?
    {
      size_t j = i;
      if (at(j) == '-') j++;
      bool matched = false;
      if (at(j) == '0') {
        j++;
        matched = true;
      } else if (at(j) >= '1' && at(j) <= '9') {
        j++;
        while (is_digit(at(j))) j++;
        matched = true;
      }
      if (matched) {
        bool is_float = false;
        if (at(j) == '.' && is_digit(at(j + 1))) {
          j += 2;
          while (is_digit(at(j))) j++;
          is_float = true;
        }
        if (at(j) == 'e' || at(j) == 'E') {
          size_t k = j + 1;
          if (at(k) == '+' || at(k) == '-') k++;
          if (is_digit(at(k))) {
            k++;
            while (is_digit(at(k))) k++;
            j = k;
            is_float = true;
          }
        }
        if (j < n) {
          const unsigned char nx = at(j);
          if (is_ascii_alnum(nx) || nx == '_' || nx == '.')
            throw SyntaxError{pos_str(line, col) + ": invalid number"};
        }
        const size_t len = j - i;
        push(is_float ? T_FLOAT : T_INT, false, line, col, line, col + len, i,
             len);
        i = j;
        col += len;
        continue;
      }
    }
    if (c == '"' && at(i + 1) == '"' && at(i + 2) == '"') {
      const size_t sl = line, sc = col;
      size_t j = i + 3;
      col += 3;
      std::string buf;
      for (;;) {
        if (j >= n)
          throw SyntaxError{pos_str(sl, sc) + ": Unterminated block string"};
        if (at(j) == '\\' && at(j + 1) == '"' && at(j + 2) == '"' &&
            at(j + 3) == '"') {
          buf.append("\"\"\"");
          j += 4;
          col += 4;
          continue;
        }
        if (at(j) == '"' && at(j + 1) == '"' && at(j + 2) == '"') {
          j += 3;
          col += 3;
          break;
        }
        const unsigned char b = at(j);
        if (b == '\n') {
          line++;
          col = 1;
        } else if (b == '\r') {
          if (at(j + 1) != '\n') {
            line++;
            col = 1;
          }
        } else {
          col++;
        }
        buf.push_back(static_cast<char>(b));
        j++;
      }
      if (!valid_utf8(buf, false))
        throw SyntaxError{pos_str(sl, sc) + ": invalid utf-8"};
      const std::string val = block_string_value(buf);
      const size_t off = pool.size();
      pool.append(val);
      push(T_STRING, true, sl, sc, line, col, off, val.size());
      i = j;
      continue;
    }
    if (c == '"') {
      const size_t sl = line, sc = col;
      size_t j = i + 1;
      col++;
      std::string buf;
      for (;;) {
        if (j >= n || at(j) == '\n' || at(j) == '\r')
          throw SyntaxError{pos_str(sl, sc) + ": Unterminated string"};
        const unsigned char b = at(j);
        if (b == '"') {
          j++;
          col++;
          break;
        }
        if (b == '\\') {
          const unsigned char e = at(j + 1);  // 0 when at end of input
          char simple = 0;
          bool is_simple = true;
          switch (e) {
            case '"': simple = '"'; break;
            case '\\': simple = '\\'; break;
            case '/': simple = '/'; break;
            case 'b': simple = '\b'; break;
            case 'f': simple = '\f'; break;
            case 'n': simple = '\n'; break;
            case 'r': simple = '\r'; break;
            case 't': simple = '\t'; break;
            default: is_simple = false; break;
          }
          if (is_simple) {
            buf.push_back(simple);
            j += 2;
            col += 2;
            continue;
          }
          if (e == 'u') {
            const int h0 = hex_val(at(j + 2));
            const int h1 = h0 < 0 ? -1 : hex_val(at(j + 3));
            const int h2 = h1 < 0 ? -1 : hex_val(at(j + 4));
            const int h3 = h2 < 0 ? -1 : hex_val(at(j + 5));
            if (h3 >= 0) {
              const unsigned cp = static_cast<unsigned>(h0) << 12 |
                                  static_cast<unsigned>(h1) << 8 |
                                  static_cast<unsigned>(h2) << 4 |
                                  static_cast<unsigned>(h3);
              append_utf8_bmp(buf, cp);
              j += 6;
              col += 6;
              continue;
            }
          }
          throw SyntaxError{pos_str(line, col) + ": bad character escape"};
        }
        if (b < 0x20 && b != '\t')
          throw SyntaxError{pos_str(line, col) + ": invalid character"};
        buf.push_back(static_cast<char>(b));
        j++;
        col++;
      }
      if (!valid_utf8(buf, true))
        throw SyntaxError{pos_str(sl, sc) + ": invalid utf-8"};
      const size_t off = pool.size();
      pool.append(buf);
      push(T_STRING, true, sl, sc, line, col, off, buf.size());
      i = j;
      continue;
    }
    {
      static const char kHex[] = "0123456789abcdef";
      std::string m = pos_str(line, col) + ": unrecognized character \\x";
      m.push_back(kHex[c >> 4]);
      m.push_back(kHex[c & 15]);
      throw SyntaxError{m};
    }
  }
  push(T_EOF, false, line, col, line, col, n, 0);
}

// ---------------------------------------------------------------- AST -----

struct Node;

struct Val {
  enum Tag : uint8_t { V_NULL, V_BOOL, V_STR, V_NODE, V_LIST } tag = V_NULL;
  bool b = false;
  std::string_view s;
  const Node* node = nullptr;
  std::vector<const Node*> list;
};

struct Field {
  const char* name;
  Val v;
};

struct Node {
  const char* kind = "";
  size_t sl = 0, sc = 0, el = 0, ec = 0;
  std::vector<Field> fields;
};

using NodeList = std::vector<const Node*>;

class Parser {
 public:
  Parser(const char* src, size_t n) : src_(src) {
    lex(src, n, toks_, pool_);
  }

  const Node* document() {
    const Tok& start = peek();
    NodeList defs;
    if (start.kind == T_EOF) err();
    while (peek().kind != T_EOF) defs.push_back(definition());
    Node* d = node("Document", start);
    add_list(d, "definitions", std::move(defs));
    return d;
  }

 private:
  const char* src_;
  std::vector<Tok> toks_;
  std::string pool_;
  size_t p_ = 0;
  const Tok* last_ = nullptr;
  int depth_ = 0;
  std::deque<Node> arena_;

  // ---- helpers
  const Tok& peek(size_t k = 0) const {
    size_t i = p_ + k;
    if (i < p_ || i >= toks_.size()) i = toks_.size() - 1;
    return toks_[i];
  }

  const Tok& adv() {
    // pyparser never advances past the EOF token; guard anyway.
    if (p_ >= toks_.size()) throw SyntaxError{"internal error: advance past EOF"};
    const Tok& t = toks_[p_];
    p_++;
    last_ = &t;
    return t;
  }

  std::string_view text(const Tok& t) const {
    return t.in_pool ? std::string_view(pool_.data() + t.off, t.len)
                     : std::string_view(src_ + t.off, t.len);
  }

  bool text_is(const Tok& t, const char* s) const { return text(t) == s; }

  bool text_in(const Tok& t, std::initializer_list<const char*> set) const {
    const std::string_view v = text(t);
    for (const char* s : set)
      if (v == s) return true;
    return false;
  }

  // bison-style location: "L.C", "L.C-C2" or "L.C-L2.C2" (end inclusive).
  static std::string loc_str(const Tok& t) {
    std::string s = pos_str(t.sl, t.sc);
    const size_t end_col = t.ec > 0 ? t.ec - 1 : 0;
    if (t.sl < t.el)
      s += "-" + pos_str(t.el, end_col);
    else if (t.sc < end_col)
      s += "-" + std::to_string(end_col);
    return s;
  }

  std::string tok_name(const Tok& t) const {
    switch (t.kind) {
      case T_EOF: return "EOF";
      case T_NAME:
        // libgraphqlparser's grammar has dedicated tokens for these keywords
        // and bison prints them verbatim.
        if (text_in(t, {"directive", "enum", "extend", "false", "fragment",
                        "implements", "input", "interface", "mutation", "null",
                        "on", "query", "scalar", "schema", "subscription",
                        "true", "type", "union"}))
          return std::string(text(t));
        return "IDENTIFIER";
      case T_INT: return "INTEGER";
      case T_FLOAT: return "FLOAT";
      case T_STRING: return "STRING";
      case T_SPREAD: return "...";
      case T_BANG: return "!";
      case T_DOLLAR: return "$";
      case T_LPAREN: return "(";
      case T_RPAREN: return ")";
      case T_COLON: return ":";
      case T_EQ: return "=";
      case T_AT: return "@";
      case T_LBRACKET: return "[";
      case T_RBRACKET: return "]";
      case T_LBRACE: return "{";
      case T_PIPE: return "|";
      case T_RBRACE: return "}";
      case T_AMP: return "&";
    }
    return "?";
  }

  [[noreturn]] void err() const {
    const Tok& t = peek();
    throw SyntaxError{loc_str(t) + ": syntax error, unexpected " + tok_name(t)};
  }

  void enter(const Tok& t) {
    if (depth_ >= kMaxDepth)
      throw SyntaxError{pos_str(t.sl, t.sc) + ": syntax error, memory exhausted"};
    depth_++;
  }
  void leave() { depth_--; }

  const Tok& expect(TokKind kind) {
    if (peek().kind != kind) err();
    return adv();
  }

  bool is_name() const { return peek().kind == T_NAME; }
  bool is_name(const char* val) const {
    const Tok& t = peek();
    return t.kind == T_NAME && text_is(t, val);
  }

  Node* node(const char* kind, const Tok& start) {
    if (last_ == nullptr) throw SyntaxError{"internal error: node before token"};
    arena_.emplace_back();
    Node* n = &arena_.back();
    n->kind = kind;
    n->sl = start.sl;
    n->sc = start.sc;
    n->el = last_->el;
    n->ec = last_->ec;
    return n;
  }

  static void add_null(Node* n, const char* name) {
    n->fields.push_back(Field{name, Val{}});
  }
  static void add_node(Node* n, const char* name, const Node* child) {
    Val v;
    if (child != nullptr) {
      v.tag = Val::V_NODE;
      v.node = child;
    }
    n->fields.push_back(Field{name, std::move(v)});
  }
  static void add_str(Node* n, const char* name, std::string_view s) {
    Val v;
    v.tag = Val::V_STR;
    v.s = s;
    n->fields.push_back(Field{name, std::move(v)});
  }
  static void add_bool(Node* n, const char* name, bool b) {
    Val v;
    v.tag = Val::V_BOOL;
    v.b = b;
    n->fields.push_back(Field{name, std::move(v)});
  }
  static void add_list(Node* n, const char* name, NodeList&& l) {
    Val v;
    v.tag = Val::V_LIST;
    v.list = std::move(l);
    n->fields.push_back(Field{name, std::move(v)});
  }
  // "dirs or None" / arguments() returning None
  static void add_opt_list(Node* n, const char* name, bool present,
                           NodeList&& l) {
    if (present)
      add_list(n, name, std::move(l));
    else
      add_null(n, name);
  }

  const Node* name() {
    const Tok& t = expect(T_NAME);
    Node* n = node("Name", t);
    add_str(n, "value", text(t));
    return n;
  }

  // ---- document
  const Node* definition() {
    const Tok& t = peek();
    if (t.kind == T_LBRACE) {
      const Node* ss = selection_set();
      Node* n = node("OperationDefinition", t);
      add_str(n, "operation", "query");
      add_null(n, "name");
      add_null(n, "variableDefinitions");
      add_null(n, "directives");
      add_node(n, "selectionSet", ss);
      return n;
    }
    if (t.kind == T_NAME) {
      if (text_in(t, {"query", "mutation", "subscription"})) return operation();
      if (text_is(t, "fragment")) return fragment_definition();
      if (text_in(t, {"schema", "scalar", "type", "interface", "union", "enum",
                      "input", "directive", "extend"}))
        return type_system_definition();
    }
    if (t.kind == T_STRING) return type_system_definition();
    err();
  }

  const Node* operation() {
    const Tok& start = adv();
    const Node* nm = is_name() ? name() : nullptr;
    bool have_vdefs = false;
    NodeList vdefs;
    if (peek().kind == T_LPAREN) {
      adv();
      have_vdefs = true;
      while (peek().kind != T_RPAREN) vdefs.push_back(variable_definition());
      if (vdefs.empty()) err();
      adv();
    }
    NodeList dirs;
    const bool have_dirs = directives(false, dirs);
    const Node* ss = selection_set();
    Node* n = node("OperationDefinition", start);
    add_str(n, "operation", text(start));
    add_node(n, "name", nm);
    add_opt_list(n, "variableDefinitions", have_vdefs, std::move(vdefs));
    add_opt_list(n, "directives", have_dirs, std::move(dirs));
    add_node(n, "selectionSet", ss);
    return n;
  }

  const Node* variable() {
    const Tok& start = expect(T_DOLLAR);
    const Node* nm = name();
    Node* n = node("Variable", start);
    add_node(n, "name", nm);
    return n;
  }

  const Node* variable_definition() {
    const Tok& start = peek();
    const Node* var = variable();
    expect(T_COLON);
    const Node* typ = type_();
    const Node* dv = nullptr;
    if (peek().kind == T_EQ) {
      adv();
      dv = value(true);
    }
    Node* n = node("VariableDefinition", start);
    add_node(n, "variable", var);
    add_node(n, "type", typ);
    add_node(n, "defaultValue", dv);
    return n;
  }

  const Node* type_() {
    const Tok& start = peek();
    Node* t;
    if (start.kind == T_LBRACKET) {
      adv();
      enter(start);
      const Node* inner = type_();
      expect(T_RBRACKET);
      leave();
      t = node("ListType", start);
      add_node(t, "type", inner);
    } else {
      const Node* nm = name();
      t = node("NamedType", start);
      add_node(t, "name", nm);
    }
    if (peek().kind == T_BANG) {
      adv();
      Node* nn = node("NonNullType", start);
      add_node(nn, "type", t);
      t = nn;
    }
    return t;
  }

  const Node* selection_set() {
    const Tok& start = expect(T_LBRACE);
    enter(start);
    NodeList sels;
    while (peek().kind != T_RBRACE) sels.push_back(selection());
    if (sels.empty()) err();
    adv();
    leave();
    Node* n = node("SelectionSet", start);
    add_list(n, "selections", std::move(sels));
    return n;
  }

  const Node* selection() {
    const Tok& t = peek();
    if (t.kind == T_SPREAD) {
      const Tok& start = adv();
      if (is_name() && !text_is(peek(), "on")) {
        const Node* nm = name();
        NodeList dirs;
        const bool have_dirs = directives(false, dirs);
        Node* n = node("FragmentSpread", start);
        add_node(n, "name", nm);
        add_opt_list(n, "directives", have_dirs, std::move(dirs));
        return n;
      }
      const Node* tc = nullptr;
      if (is_name("on")) {
        adv();
        const Tok& ts = peek();
        const Node* nm = name();
        Node* tcn = node("NamedType", ts);
        add_node(tcn, "name", nm);
        tc = tcn;
      }
      NodeList dirs;
      const bool have_dirs = directives(false, dirs);
      const Node* ss = selection_set();
      Node* n = node("InlineFragment", start);
      add_node(n, "typeCondition", tc);
      add_opt_list(n, "directives", have_dirs, std::move(dirs));
      add_node(n, "selectionSet", ss);
      return n;
    }
    if (t.kind == T_NAME) {
      const Tok& start = t;
      const Node* nm = name();
      const Node* alias = nullptr;
      if (peek().kind == T_COLON) {
        adv();
        alias = nm;
        nm = name();
      }
      NodeList args;
      const bool have_args = arguments(false, args);
      NodeList dirs;
      const bool have_dirs = directives(false, dirs);
      const Node* ss = peek().kind == T_LBRACE ? selection_set() : nullptr;
      Node* n = node("Field", start);
      add_node(n, "alias", alias);
      add_node(n, "name", nm);
      add_opt_list(n, "arguments", have_args, std::move(args));
      add_opt_list(n, "directives", have_dirs, std::move(dirs));
      add_node(n, "selectionSet", ss);
      return n;
    }
    err();
  }

  // Returns false for pyparser's "return None".
  bool arguments(bool is_const, NodeList& args) {
    if (peek().kind != T_LPAREN) return false;
    adv();
    while (peek().kind != T_RPAREN) {
      const Tok& start = peek();
      const Node* nm = name();
      expect(T_COLON);
      const Node* v = value(is_const);
      Node* a = node("Argument", start);
      add_node(a, "name", nm);
      add_node(a, "value", v);
      args.push_back(a);
    }
    if (args.empty()) err();
    adv();
    return true;
  }

  // Returns false for pyparser's "dirs or None" when empty.
  bool directives(bool is_const, NodeList& dirs) {
    while (peek().kind == T_AT) {
      const Tok& start = adv();
      const Node* nm = name();
      NodeList args;
      const bool have_args = arguments(is_const, args);
      Node* d = node("Directive", start);
      add_node(d, "name", nm);
      add_opt_list(d, "arguments", have_args, std::move(args));
      dirs.push_back(d);
    }
    return !dirs.empty();
  }

  const Node* fragment_definition() {
    const Tok& start = adv();
    if (is_name("on")) err();
    const Node* nm = name();
    if (!is_name("on")) err();
    adv();
    const Tok& ts = peek();
    const Node* tn = name();
    Node* tc = node("NamedType", ts);
    add_node(tc, "name", tn);
    NodeList dirs;
    const bool have_dirs = directives(false, dirs);
    const Node* ss = selection_set();
    Node* n = node("FragmentDefinition", start);
    add_node(n, "name", nm);
    add_node(n, "typeCondition", tc);
    add_opt_list(n, "directives", have_dirs, std::move(dirs));
    add_node(n, "selectionSet", ss);
    return n;
  }

  const Node* value(bool is_const) {
    const Tok& t = peek();
    switch (t.kind) {
      case T_DOLLAR:
        if (is_const) err();
        return variable();
      case T_INT: {
        adv();
        Node* n = node("IntValue", t);
        add_str(n, "value", text(t));
        return n;
      }
      case T_FLOAT: {
        adv();
        Node* n = node("FloatValue", t);
        add_str(n, "value", text(t));
        return n;
      }
      case T_STRING: {
        adv();
        Node* n = node("StringValue", t);
        add_str(n, "value", text(t));
        return n;
      }
      case T_NAME: {
        adv();
        if (text_is(t, "true") || text_is(t, "false")) {
          Node* n = node("BooleanValue", t);
          add_bool(n, "value", text_is(t, "true"));
          return n;
        }
        if (text_is(t, "null")) return node("NullValue", t);
        Node* n = node("EnumValue", t);
        add_str(n, "value", text(t));
        return n;
      }
      case T_LBRACKET: {
        adv();
        enter(t);
        NodeList vals;
        while (peek().kind != T_RBRACKET) vals.push_back(value(is_const));
        adv();
        leave();
        Node* n = node("ListValue", t);
        add_list(n, "values", std::move(vals));
        return n;
      }
      case T_LBRACE: {
        adv();
        enter(t);
        NodeList fields;
        while (peek().kind != T_RBRACE) {
          const Tok& fs = peek();
          const Node* nm = name();
          expect(T_COLON);
          const Node* v = value(is_const);
          Node* f = node("ObjectField", fs);
          add_node(f, "name", nm);
          add_node(f, "value", v);
          fields.push_back(f);
        }
        adv();
        leave();
        Node* n = node("ObjectValue", t);
        add_list(n, "fields", std::move(fields));
        return n;
      }
      default:
        break;
    }
    err();
  }

  // pyparser.type_system_definition: swallow the tokens of a type-system
  // definition and return a node with only kind + loc.
  const Node* type_system_definition() {
    const Tok& start = peek();
    if (start.kind == T_STRING) adv();
    const Tok& kw = expect(T_NAME);
    const char* kind = nullptr;
    {
      const std::string_view k = text(kw);
      if (k == "schema") kind = "SchemaDefinition";
      else if (k == "scalar") kind = "ScalarTypeDefinition";
      else if (k == "type") kind = "ObjectTypeDefinition";
      else if (k == "interface") kind = "InterfaceTypeDefinition";
      else if (k == "union") kind = "UnionTypeDefinition";
      else if (k == "enum") kind = "EnumTypeDefinition";
      else if (k == "input") kind = "InputObjectTypeDefinition";
      else if (k == "directive") kind = "DirectiveDefinition";
      else if (k == "extend") kind = "TypeExtensionDefinition";
    }
    if (kind == nullptr) err();
    long long depth = 0;
    for (;;) {
      const Tok& t = peek();
      if (t.kind == T_EOF) break;
      if (t.kind == T_LBRACE) {
        depth++;
      } else if (t.kind == T_RBRACE) {
        depth--;
        if (depth == 0) {
          adv();
          break;
        }
      } else if (depth == 0 && t.kind == T_NAME && &t != &kw &&
                 text_in(t, {"query", "mutation", "subscription", "fragment",
                             "schema", "scalar", "type", "interface", "union",
                             "enum", "input", "directive", "extend"}) &&
                 last_ != &kw && last_->kind != T_COLON &&
                 last_->kind != T_AT && last_->kind != T_PIPE &&
                 last_->kind != T_EQ && last_->kind != T_AMP) {
        break;
      }
      adv();
    }
    return node(kind, start);
  }
};

// ------------------------------------------------------- JSON rendering ---

void json_string(std::string& out, std::string_view s) {
  static const char kHex[] = "0123456789abcdef";
  out.push_back('"');
  bool prev_high = false;  // previous code point was a high surrogate
  const size_t n = s.size();
  for (size_t i = 0; i < n; i++) {
    const unsigned char c = static_cast<unsigned char>(s[i]);
    bool this_high = false;
    switch (c) {
      case '"': out.append("\\\""); break;
      case '\\': out.append("\\\\"); break;
      case '\b': out.append("\\b"); break;
      case '\f': out.append("\\f"); break;
      case '\n': out.append("\\n"); break;
      case '\r': out.append("\\r"); break;
      case '\t': out.append("\\t"); break;
      default:
        if (c < 0x20) {
          out.append("\\u00");
          out.push_back(kHex[c >> 4]);
          out.push_back(kHex[c & 15]);
        } else if (c == 0xED && i + 2 < n &&
                   static_cast<unsigned char>(s[i + 1]) >= 0xA0) {
          // UTF-8 encoded surrogate (only reachable via "surrogatepass"
          // quoted strings).  pyparser yields a Python str holding the lone
          // surrogate; the JSON escape \udXXX loads to the same str.  The one
          // exception: a high surrogate escape immediately followed by a low
          // surrogate escape would be *paired* by JSON readers, whereas
          // pyparser keeps two separate code points -- so a low surrogate
          // directly following a high one is passed through raw instead
          // (json.loads(bytes) decodes it with "surrogatepass").
          const unsigned char c1 = static_cast<unsigned char>(s[i + 1]);
          const unsigned char c2 = static_cast<unsigned char>(s[i + 2]);
          const unsigned cp = 0xD000u | ((c1 & 0x3Fu) << 6) | (c2 & 0x3Fu);
          const bool is_low = cp >= 0xDC00u;
          if (is_low && prev_high) {
            out.push_back(static_cast<char>(c));
            out.push_back(static_cast<char>(c1));
            out.push_back(static_cast<char>(c2));
          } else {
            out.append("\\u");
            out.push_back(kHex[(cp >> 12) & 15]);
            out.push_back(kHex[(cp >> 8) & 15]);
            out.push_back(kHex[(cp >> 4) & 15]);
            out.push_back(kHex[cp & 15]);
          }
          this_high = !is_low;
          i += 2;
        } else {
          out.push_back(static_cast<char>(c));
        }
        break;
    }
    prev_high = this_high;
  }
  out.push_back('"');
}

// Byte format copied from libgraphqlparser's JsonVisitor (including its
// irregular spacing inside "loc"), so upstream golden tests keep passing.
// Recursion depth is bounded by the parser's nesting bound (<= 2 nodes per
// nesting level plus a constant).
void render(std::string& out, const Node* n) {
  out.append("{\"kind\":\"");
  out.append(n->kind);
  out.append("\",\"loc\":{\"start\": {\"line\": ");
  out.append(std::to_string(n->sl));
  out.append(",\"column\":");
  out.append(std::to_string(n->sc));
  out.append("}, \"end\": {\"line\":");
  out.append(std::to_string(n->el));
  out.append(",\"column\":");
  out.append(std::to_string(n->ec));
  out.append("}}");
  for (const Field& f : n->fields) {
    out.append(",\"");
    out.append(f.name);
    out.append("\":");
    switch (f.v.tag) {
      case Val::V_NULL: out.append("null"); break;
      case Val::V_BOOL: out.append(f.v.b ? "true" : "false"); break;
      case Val::V_STR: json_string(out, f.v.s); break;
      case Val::V_NODE: render(out, f.v.node); break;
      case Val::V_LIST: {
        out.push_back('[');
        bool first = true;
        for (const Node* c : f.v.list) {
          if (!first) out.push_back(',');
          first = false;
          render(out, c);
        }
        out.push_back(']');
        break;
      }
    }
  }
  out.push_back('}');
}

// Sentinel returned when even the error message cannot be allocated;
// graphql_error_free recognises it and does not free() it.
const char kOomMessage[] = "1.1: syntax error, memory exhausted";

// Never throws.
const char* dup_message(const char* msg, size_t len) noexcept {
  char* m = static_cast<char*>(std::malloc(len + 1));
  if (m == nullptr) return kOomMessage;
  std::memcpy(m, msg, len);
  m[len] = '\0';
  // Messages never legitimately contain NUL (source text has none), but make
  // that structurally certain for C consumers.
  for (size_t i = 0; i < len; i++)
    if (m[i] == '\0') m[i] = '?';
  return m;
}

}  // namespace

GQLSHIM_EXPORT struct GraphQLAstNode* graphql_parse_string(const char* text,
                                                           const char** error) {
  if (error != nullptr) *error = nullptr;
  if (text == nullptr) text = "";
  try {
    const size_t n = std::strlen(text);
    Parser parser(text, n);
    const Node* doc = parser.document();
    GraphQLAstNode* handle = new GraphQLAstNode();
    try {
      handle->json.reserve((n < (1u << 20) ? n : (1u << 20)) * 8 + 256);
      render(handle->json, doc);
    } catch (...) {
      delete handle;
      throw;
    }
    return handle;
  } catch (const SyntaxError& e) {
    if (error != nullptr) *error = dup_message(e.msg.data(), e.msg.size());
  } catch (const std::bad_alloc&) {
    if (error != nullptr)
      *error = dup_message(kOomMessage, sizeof(kOomMessage) - 1);
  } catch (...) {
    static const char kInternal[] = "1.1: syntax error, internal error";
    if (error != nullptr) *error = dup_message(kInternal, sizeof(kInternal) - 1);
  }
  return nullptr;
}

GQLSHIM_EXPORT void graphql_error_free(const char* error) {
  if (error == nullptr || error == kOomMessage) return;
  std::free(const_cast<char*>(error));
}

GQLSHIM_EXPORT void graphql_node_free(struct GraphQLAstNode* node) {
  delete node;  // delete nullptr is a no-op
}

GQLSHIM_EXPORT const char* graphql_ast_to_json(
    const struct GraphQLAstNode* node) {
  if (node == nullptr) return nullptr;
  return node->json.c_str();
}
