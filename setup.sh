#!/bin/sh
# Run once after a fresh restore: build the parser drop-in and smoke-test the import.
HERE="$(cd "$(dirname "$0")" && pwd)"
cd "$HERE" || exit 1
PY="${VERIF_PYTHON:-/venv/bin/python}"
[ -x "$PY" ] || PY=python3
mkdir -p build evidence
# build.sh is a bash script (set -o pipefail): never run it with /bin/sh (dash here)
if [ -f shim/build.sh ]; then bash shim/build.sh || echo "shim build failed: falling back to the python parser"; fi
PYTHONDONTWRITEBYTECODE=1 PYTHONPATH="$HERE" "$PY" -c "from vt import boot; print('parser:', boot.init())"
