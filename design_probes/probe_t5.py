import boot, asyncio, json
from tartiflette import create_engine, Resolver, Directive, Scalar
SN = "t5"
LOG = []
def mk(name):
    @Directive(name, schema_name=SN)
    class D:
        async def on_field_execution(self, dargs, nxt, parent, args, ctx, info):
            LOG.append((name, "field", dargs)); r = await nxt(parent, args, ctx, info); return f"{r}<F:{name}:{dargs.get('t')}>"
        async def on_argument_execution(self, dargs, nxt, parent_node, arg_def, arg_node, value, ctx):
            LOG.append((name, "arg", dargs)); r = await nxt(parent_node, arg_def, arg_node, value, ctx); return f"{r}<A:{name}>"
        async def on_post_input_coercion(self, dargs, nxt, parent_node, value, ctx):
            LOG.append((name, "postin", dargs)); r = await nxt(parent_node, value, ctx)
            return f"{r}<I:{name}>" if isinstance(r, str) else (dict(r, _t=r.get("_t", "") + f"<I:{name}>") if isinstance(r, dict) else r)
        async def on_pre_output_coercion(self, dargs, nxt, value, ctx, info):
            LOG.append((name, "preout", dargs)); r = await nxt(value, ctx, info)
            return f"{r}<O:{name}>" if isinstance(r, str) else r
for d in "abcdefgh": mk(d)
@Scalar("Str", schema_name=SN)
class Str:
    def coerce_output(self, v): return f"out({v})"
    def coerce_input(self, v):
        if not isinstance(v, str): raise TypeError("no")
        return f"in({v})"
    def parse_literal(self, ast): return f"lit({ast.value})"
SDL = '''
directive @a(t: String) on FIELD | FIELD_DEFINITION | ARGUMENT_DEFINITION | INPUT_FIELD_DEFINITION | SCALAR | INPUT_OBJECT | OBJECT | ENUM | ENUM_VALUE
directive @b(t: String) on FIELD | FIELD_DEFINITION | ARGUMENT_DEFINITION | INPUT_FIELD_DEFINITION | SCALAR | INPUT_OBJECT | OBJECT | ENUM | ENUM_VALUE
directive @c(t: String) on FIELD | FIELD_DEFINITION | ARGUMENT_DEFINITION | INPUT_FIELD_DEFINITION | SCALAR | INPUT_OBJECT | OBJECT | ENUM | ENUM_VALUE
directive @d(t: String) on FIELD | FIELD_DEFINITION | ARGUMENT_DEFINITION | INPUT_FIELD_DEFINITION | SCALAR | INPUT_OBJECT | OBJECT | ENUM | ENUM_VALUE
directive @e(t: String) on FIELD | FIELD_DEFINITION | ARGUMENT_DEFINITION | INPUT_FIELD_DEFINITION | SCALAR | INPUT_OBJECT | OBJECT | ENUM | ENUM_VALUE
directive @f(t: String) on FIELD | FIELD_DEFINITION | ARGUMENT_DEFINITION | INPUT_FIELD_DEFINITION | SCALAR | INPUT_OBJECT | OBJECT | ENUM | ENUM_VALUE
directive @g(t: String) on FIELD | FIELD_DEFINITION | ARGUMENT_DEFINITION | INPUT_FIELD_DEFINITION | SCALAR | INPUT_OBJECT | OBJECT | ENUM | ENUM_VALUE
directive @h(t: String) on FIELD | FIELD_DEFINITION | ARGUMENT_DEFINITION | INPUT_FIELD_DEFINITION | SCALAR | INPUT_OBJECT | OBJECT | ENUM | ENUM_VALUE
scalar Str @a @b
input In @c @d { s: Str @e @f }
type Query {
  echo(x: Str @g @h): Str @c @d
  echoIn(i: In @g): Str
}
'''
async def main():
    @Resolver("Query.echo", schema_name=SN)
    async def r(p, a, c, i): return f"R[{a.get('x')}]"
    @Resolver("Query.echoIn", schema_name=SN)
    async def r2(p, a, c, i): return f"R[{a.get('i')}]"
    e = await create_engine(SDL, schema_name=SN)
    async def q(label, query, **kw):
        LOG.clear(); r = await e.execute(query, **kw)
        print("==", label, "\n  ", json.dumps(r)[:400], "\n   hooks:", [(n, k) for n, k, _ in LOG])
    await q("literal arg", '{ echo(x: "v") }')
    await q("variable arg", 'query($v: Str){ echo(x: $v) }', variables={"v": "v"})
    await q("query-side dirs", '{ echo(x: "v") @e(t: "1") @f(t: "2") }')
    await q("input obj literal", '{ echoIn(i: {s: "v"}) }')
    await q("input obj variable", 'query($i: In){ echoIn(i: $i) }', variables={"i": {"s": "v"}})
    await q("input obj literal w/ nested var", 'query($v: Str){ echoIn(i: {s: $v}) }', variables={"v": "v"})
    await q("merged field nodes with dirs", '{ echo(x: "v") @e(t: "1") echo(x: "v") @f(t: "2") }')
asyncio.run(main())
