import boot, asyncio, json
from functools import lru_cache
from tartiflette import create_engine, Resolver, Subscription, TartifletteError
from tartiflette.schema.registry import SchemaRegistry
SDL = "type Query { a(x: Int): Int b: [Int!] } type Subscription { ev(n: Int!): E } type E { v: Int! w: Int }"
async def main():
    for sn in ("u1", "u2"):
        @Resolver("Query.a", schema_name=sn)
        async def ra(p, a, c, i, sn=sn): return {"u1": 1, "u2": 2}[sn]
    @Subscription("Subscription.ev", schema_name="u1")
    async def ev(p, a, c, i):
        for k in range(a["n"]):
            yield {"ev": {"v": k if k != 1 else None, "w": k}}
    coerced = []
    async def ec(exc, err):
        coerced.append(err["message"]); err["seen"] = True; return err
    e1 = await create_engine(SDL, schema_name="u1", error_coercer=ec)
    e2 = await create_engine(SDL, schema_name="u2", query_cache_decorator=None)
    async def q(e, label, query, **kw):
        try:
            r = await e.execute(query, **kw); print("==", label, json.dumps(r, default=repr)[:300])
        except BaseException as ex:
            print("==", label, "RAISED", type(ex).__name__, ex)
    for label, query in [("empty", ""), ("ws", "  \n"), ("comment", "# hi"), ("nul", "{ a }\x00 garbage"), ("bytes", b"{ a }"), ("bad utf8", b"{ a(x: 1) # \xff\xfe\n }"),
                         ("bad utf8 in string", b'{ a(x: "\xff") }'), ("deep", "{" * 3000), ("deepnest", "{ a " * 400 + "}" * 400), ("unicode", "{ a } # é\U0001F600"), ("bom", "﻿{ a }")]:
        await q(e1, label, query)
    await q(e1, "opname unknown", "query A { a } query B { a }", operation_name="C")
    await q(e1, "opname missing", "query A { a } query B { a }")
    await q(e1, "vars not dict", "query($x: Int){ a(x: $x) }", variables=[1,2])
    await q(e1, "vars str", "query($x: Int){ a(x: $x) }", variables="abc")
    await q(e1, "opname int", "query A { a }", operation_name=5)
    print("coerced calls:", coerced)
    print("e2 (u2):", await e2.execute("{ a }"), " e1 (u1):", await e1.execute("{ a }"))
    out = []
    async for r in e1.subscribe("subscription($n: Int!){ ev(n: $n) { v w } }", variables={"n": 3}): out.append(r)
    print("sub:", json.dumps(out))
    out = []
    async for r in e1.subscribe("subscription($n: Int!){ ev(n: $n) { v w } }", variables={}): out.append(r)
    print("sub bad vars:", json.dumps(out))
    out = []
    async for r in e1.subscribe("subscription { ev(n: 1) { zzz } }"): out.append(r)
    print("sub invalid:", json.dumps(out)[:200])
asyncio.run(main())
