"""Design probe: variable coercion reporting (C04). NOT framework code."""
import boot  # noqa: F401
import asyncio, json
from tartiflette import Resolver, create_engine
SDL = "input In { a: Int! b: [Int!] c: In d: String = \"dd\" } type Query { arg(x: Int, y: In, z: [Int!], w: [[Int]]): String other: Int }"
calls = []
async def main():
    @Resolver("Query.arg", schema_name="t9")
    async def r(p, a, c, i): calls.append(a); return json.dumps(a, sort_keys=True)
    @Resolver("Query.other", schema_name="t9")
    async def r2(p, a, c, i): calls.append("other"); return 1
    e = await create_engine(SDL, schema_name="t9")
    async def q(label, query, **kw):
        calls.clear(); r = await e.execute(query, **kw)
        print("==", label, "\n  ", json.dumps(r)[:900], "\n   calls", calls)
    Q = "query($a: Int, $b: In, $c: [Int!], $w: [[Int]]){ arg(x: $a, y: $b, z: $c, w: $w) other }"
    await q("three offending", Q, variables={"a": "x", "b": {"a": None, "zz": 1, "c": {"b": [1, None]}}, "c": [1, None], "w": 5})
    await q("ok + wrap", Q, variables={"a": 1, "b": {"a": 1, "c": {"a": 2, "b": 3}}, "c": 4, "w": 5})
    await q("absent vs null", Q, variables={"a": None})
    await q("int as float", Q, variables={"a": 3.0, "c": [2.0], "w": [[1.5]]})
    await q("bool for int", Q, variables={"a": True})
asyncio.run(main())
