"""Design probe: what paths/locations does the engine report for each fault
kind, per-variable reporting on coercion failure, sequential configs.
NOT framework code."""
import boot  # noqa: F401
import asyncio, json
from tartiflette import Resolver, create_engine, TartifletteError

SDL = """
enum Color { RED GREEN }
interface Pet { name: String }
type Dog implements Pet { name: String }
type Cat implements Pet { name: String }
type Leaf { i: Int! s: String e: Color }
type Mid { leaf: Leaf! leaves: [Leaf!] matrix: [[Int!]] pets: [Pet] }
input In { a: Int! b: [Int!] }
type Query { mid: Mid mids: [Mid!]! arg(x: Int!, y: In): Int other: Int }
"""
class MyErr(TartifletteError):
    def __init__(self, m): super().__init__(m, extensions={"code": 42}); self.user_message = "user:" + m
async def main(par, lst):
    sn = f"t8_{par}_{lst}"
    plan = {}
    def R(name):
        @Resolver(name, schema_name=sn)
        async def r(p, a, c, i):
            key = "/".join(map(str, i.path.as_list()))
            v = plan.get(key, plan.get(name))
            if isinstance(v, type) and issubclass(v, BaseException): raise v("boom@" + key)
            if isinstance(v, BaseException): raise v
            return v
    for n in ["Query.mid", "Query.mids", "Query.arg", "Query.other", "Mid.leaf", "Mid.leaves", "Mid.matrix", "Mid.pets", "Leaf.i", "Leaf.s", "Leaf.e"]: R(n)
    e = await create_engine(SDL, schema_name=sn, coerce_parent_concurrently=par, coerce_list_concurrently=lst)
    async def q(label, query, p, **kw):
        plan.clear(); plan.update(p)
        r = await e.execute(query, **kw)
        errs = [(x["message"][:60], x["path"], x["locations"], x.get("extensions")) for x in r.get("errors", [])]
        print(f"== {label}\n   data={json.dumps(r['data'])}\n   errs={errs}")
    base = {"Query.mid": {}, "Mid.leaf": {}, "Leaf.i": 1, "Leaf.s": "s", "Leaf.e": "RED", "Query.other": 7}
    Q = "{\n  mid {\n    leaf { i s e }\n  }\n  other\n}"
    await q("null at non-null leaf", Q, {**base, "Leaf.i": None})
    await q("raise plain", Q, {**base, "Leaf.s": ValueError})
    await q("raise TartifletteError subclass", Q, {**base, "Leaf.s": MyErr("m")})
    await q("exception as value", Q, {**base, "Leaf.s": ValueError("as value")})
    await q("bad enum", Q, {**base, "Leaf.e": "BLUE"})
    await q("bad int", Q, {**base, "Leaf.i": "abc"})
    QL = "{ mid { leaves { i } matrix pets { name } } other }"
    bl = {**base, "Mid.leaves": [{}, {}, {}], "Mid.matrix": [[1, 2], [3]], "Mid.pets": [{"_typename": "Dog"}, {"_typename": "Cat"}]}
    await q("list item null non-null (idx1)", QL, {**bl, "mid/leaves/1/i": None})
    await q("two items fail", QL, {**bl, "mid/leaves/0/i": None, "mid/leaves/2/i": ValueError})
    await q("matrix inner null", QL, {**bl, "Mid.matrix": [[1, None], [3]]})
    await q("non-list for list", QL, {**bl, "Mid.leaves": (1, 2)})
    await q("unknown runtime type", QL, {**bl, "Mid.pets": [{"_typename": "Dog"}, {"_typename": "Nope"}]})
    await q("foreign runtime type", QL, {**bl, "Mid.pets": [{"_typename": "Leaf"}]})
    QM = "{ mids { leaf { i } } other }"
    await q("non-null list of non-null: propagate to data", QM, {**base, "Query.mids": [{}, {}], "mids/1/leaf/i": None})
    await q("arg: null var for non-null arg with fragment", "query($x: Int){ ...F other } fragment F on Query { arg(x: $x) }", base, variables={"x": None})
    await q("merged nodes, fault", "{ mid { leaf { i } }\n  mid { leaf { s } } }", {**base, "Leaf.i": None})
    await q("vars: two offending", "query($a: Int!, $b: In, $c: [Int!]){ arg(x: $a, y: $b) other }", base, variables={"a": "x", "b": {"a": None, "zz": 1}, "c": [1, None]})
asyncio.run(main(True, True))
print("\n######## sequential parent + sequential list")
asyncio.run(main(False, False))
