import boot, asyncio, json, traceback
from tartiflette import create_engine, Resolver, Directive, Scalar
from tartiflette.schema.registry import SchemaRegistry
n = [0]
async def build(sdl, label):
    n[0] += 1
    try:
        e = await create_engine(sdl, schema_name=f"s{n[0]}")
        print(f"BUILT  {label}")
        return e
    except Exception as ex:
        print(f"REJECT {label}: {type(ex).__name__}: {str(ex).strip()[:110]!r}")
asyncio_run = asyncio.run
async def main():
    Q = "type Query { a: Int }\n"
    await build(Q + "interface I { xs: [I] } type A implements I { xs: [A] y: Int }", "C11 covariant list field [A] for [I]")
    await build(Q + "interface I { x: I } type A implements I { x: A }", "C11 covariant object for interface")
    await build(Q + "type B { b: Int } type C { c: Int } union U = B | C interface I { u: U } type A implements I { u: B }", "C11 covariant union member")
    await build(Q + "interface I { x: Int } type A implements I { x: Int! }", "C11 non-null covariant")
    await build(Q + "type A { a: Int } extend type A { b: Int }", "C11 extend type")
    await build("extend type A { b: Int }\n" + Q + "type A { a: Int }", "C11 extend before definition")
    # C12 violations
    await build(Q + "type A { f: Undefined }", "C12 undefined field type")
    await build(Q + "type A { f(x: Undefined): Int }", "C12 undefined arg type")
    await build(Q + "input In { f: Undefined }", "C12 undefined input field type")
    await build(Q + "type A { f(x: A): Int }", "C12 arg non-input type")
    await build(Q + "input In { f: Query }", "C12 input field non-input type")
    await build(Q + "interface I { x: Int } type A implements I { y: Int }", "C12 missing iface field")
    await build(Q + "interface I { x: Int } type A implements I { x: String }", "C12 incompatible field type")
    await build(Q + "interface I { x(a: Int): Int } type A implements I { x: Int }", "C12 missing arg")
    await build(Q + "interface I { x(a: Int): Int } type A implements I { x(a: String): Int }", "C12 mistyped arg")
    await build(Q + "interface I { x: Int } type A implements I { x(b: Int!): Int }", "C12 extra required arg")
    await build(Q + "type B { b: Int } type A implements B { b: Int }", "C12 implements non-interface")
    await build("type A { a: Int }", "C12 no query root")
    await build("schema { query: Nope } type A { a: Int }", "C12 undefined root")
    await build(Q + "type A", "C12 object without fields")
    await build(Q + "union U = U", "C12 union containing itself")
    await build(Q + "enum E { A A }", "C12 duplicate enum values")
    await build(Q + "type A { a: Int } type A { b: Int }", "C12 duplicate type")
    await build(Q + "directive @d on FIELD directive @d on FIELD", "C12 duplicate directive")
    await build(Q + "scalar Foo", "C12 scalar w/o implementation")
    await build(Q + "extend type Nope { a: Int }", "C12 extend unknown")
    await build(Q + "enum E { A } extend type E { a: Int }", "C12 extend wrong kind")
    await build(Q + "type A { a: Int } extend type A { a: Int }", "C12 extend dup field")
    await build(Q + "type A { a: Int", "C12 syntax")
    # sites: behind wrappers / in extension / on interface
    await build(Q + "type A { f: [Undefined!]! }", "C12 undefined behind wrappers")
    await build(Q + "interface I { f: Undefined }", "C12 undefined on interface")
    await build(Q + "type A { a: Int } extend type A { f: Undefined }", "C12 undefined in extension")
    await build(Q + "type A { a: Int } extend type A { f(x: A): Int }", "C12 non-input arg in extension")
    await build(Q + "interface I { x: Int } type A { y: Int } extend type A implements I", "C12 ext implements w/o field")
    await build(Q + "directive @d(x: Query) on FIELD", "C12 directive arg non-input")
    await build(Q + "interface I { f(x: I): Int }", "C12 iface arg non-input")
    await build(Q + "input In { f: [In2!]! } type In2 { a: Int }", "C12 input field wrapped non-input")
    await build(Q + "enum E { A } extend enum E { A }", "C12 extend dup enum value")
    await build(Q + "type B { b: Int } union U = B extend union U = B", "C12 extend dup union member")
    await build(Q + "input In { a: Int } extend input In { a: Int }", "C12 extend dup input field")
    await build(Q + "interface I { a: Int } extend interface I { a: Int }", "C12 extend dup iface field")
asyncio.run(main())
