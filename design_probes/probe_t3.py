"""Design probe: a controlled asyncio scheduler can (a) detect quiescence
deterministically and (b) enumerate every resolver-completion order of a small
request by stateless replay (DFS over choice prefixes).  NOT framework code."""
import boot  # noqa: F401
import asyncio
import time

from tartiflette import Resolver, create_engine

SDL = """
type Item { id: Int name: String tags: [String] }
type Query { items: [Item] a: Int b: Int c: Int }
type Mutation { m1: Int m2: Item m3: Int }
"""
SN = "t3"


class Sched:
    """Resolvers block on a future; the driver releases one blocked resolver
    each time the loop is quiescent (nothing else runnable)."""

    def __init__(self, choose):
        self.blocked = {}
        self.log = []
        self.choose = choose
        self.steps = 0

    async def gate(self, key):
        self.log.append(("start", key))
        fut = asyncio.get_running_loop().create_future()
        self.blocked[key] = fut
        await fut
        self.log.append(("resume", key))

    async def drive(self, main_task):
        loop = asyncio.get_running_loop()
        while not main_task.done():
            await asyncio.sleep(0)
            if loop._ready:  # something else is still runnable
                continue
            if not self.blocked:
                await asyncio.sleep(0)
                if not loop._ready and not self.blocked and not main_task.done():
                    raise RuntimeError("stuck: nothing runnable, nothing gated")
                continue
            keys = sorted(self.blocked)
            k = self.choose(keys, self.steps)
            self.steps += 1
            self.log.append(("release", k, tuple(keys)))
            self.blocked.pop(k).set_result(None)


async def run(engine, query, sched):
    t = asyncio.ensure_future(engine.execute(query, context={"sched": sched}))
    await sched.drive(t)
    return await t


def mk(name, val):
    @Resolver(name, schema_name=SN)
    async def r(p, a, ctx, info):
        await ctx["sched"].gate("/".join(map(str, info.path.as_list())))
        return val(p) if callable(val) else val


async def run_prefix(engine, query, prefix):
    choices = []

    def choose(keys, step):
        i = prefix[step] if step < len(prefix) else 0
        choices.append((i, len(keys)))
        return keys[i]

    s = Sched(choose)
    return await run(engine, query, s), s, choices


async def main():
    mk("Query.items", [{"id": 1}, {"id": 2}])
    mk("Item.id", lambda p: p["id"])
    mk("Item.name", lambda p: "n%d" % p["id"])
    mk("Query.a", 1), mk("Query.b", 2), mk("Query.c", 3)
    mk("Mutation.m1", 1), mk("Mutation.m2", {"id": 9}), mk("Mutation.m3", 3)
    t0 = time.time()
    e = await create_engine(SDL, schema_name=SN)
    print("cook s", round(time.time() - t0, 3))
    for query in ["{ a b c }", "{ items { id name } a }",
                  "mutation { m1 m2 { id name } m3 }"]:
        frontier, n, outs, orders = [[]], 0, set(), set()
        t0 = time.time()
        while frontier:
            prefix = frontier.pop()
            r, s, choices = await run_prefix(e, query, prefix)
            n += 1
            outs.add(repr(r))
            orders.add(tuple(x[1] for x in s.log if x[0] == "release"))
            for d in range(len(prefix), len(choices)):
                for alt in range(1, choices[d][1]):
                    frontier.append([c[0] for c in choices[:d]] + [alt])
        print(query, "| schedules", n, "| distinct release orders", len(orders),
              "| distinct responses", len(outs), "| s", round(time.time() - t0, 2))
    t0 = time.time()
    for _ in range(200):
        await run(e, "{ items { id name } a }", Sched(lambda keys, step: keys[0]))
    print("200 scheduled requests s", round(time.time() - t0, 2))


asyncio.run(main())
