import boot, asyncio, json, decimal
from tartiflette import create_engine, Resolver, Subscription, TartifletteError

SDL = '''
interface Pet { name: String }
type Dog implements Pet { name: String bark: Int }
type Cat implements Pet { name: String meow: Int }
enum Color { RED GREEN }
input Inp { a: Int b: [Int!] c: String = "d\\"q" }
type Query {
  pet: Pet
  dog: Dog
  echoInts(a: [Int]): String
  echoInp(i: Inp): String
  color(c: Color): String
  f(x: Float): String
  i: Int
  s(a: String = "x\\"y"): String
  e1: Int
  e2: Int
}
type Subscription { a: Int b: Int }
'''
calls = []
async def main():
    sn = "t2"
    @Resolver("Query.pet", schema_name=sn)
    async def r_pet(p, a, c, i): calls.append("pet"); return {"_typename": "Dog", "name": "rex", "bark": 1}
    @Resolver("Query.dog", schema_name=sn)
    async def r_dog(p, a, c, i): calls.append("dog"); return {"name": "rex", "bark": 1}
    @Resolver("Query.echoInts", schema_name=sn)
    async def r_ei(p, a, c, i): calls.append("echoInts"); return repr(a)
    @Resolver("Query.echoInp", schema_name=sn)
    async def r_eo(p, a, c, i): calls.append("echoInp"); return repr(a)
    @Resolver("Query.color", schema_name=sn)
    async def r_c(p, a, c, i): calls.append("color"); return repr(a)
    @Resolver("Query.f", schema_name=sn)
    async def r_f(p, a, c, i): calls.append("f"); return repr(a)
    box = {}
    @Resolver("Query.i", schema_name=sn)
    async def r_i(p, a, c, i): return box["i"]
    SHARED = TartifletteError("shared")
    @Resolver("Query.e1", schema_name=sn)
    async def r_e1(p, a, c, i): raise SHARED
    @Resolver("Query.e2", schema_name=sn)
    async def r_e2(p, a, c, i): raise SHARED
    @Subscription("Subscription.a", schema_name=sn)
    async def s_a(p, a, c, i):
        yield {"a": 1}
    e = await create_engine(SDL, schema_name=sn)
    async def q(label, query, **kw):
        calls.clear()
        r = await e.execute(query, **kw)
        print("==", label); print("  ", json.dumps(r, default=repr)[:600]); print("   calls:", calls)
    await q("2a repeated spread in fragment", "fragment A on Dog { ...B ...B } fragment B on Dog { name } { dog { ...A } }")
    await q("2b diamond", "fragment A on Dog { ...B ...C } fragment B on Dog { ...D } fragment C on Dog { ...D } fragment D on Dog { name } { dog { ...A } }")
    await q("2c repeated spread in operation", "fragment B on Dog { name } { dog { ...B ...B } }")
    await q("3 impossible inline", "{ dog { ... on Cat { meow } } }")
    await q("3b impossible named spread", "fragment C on Cat { meow } { dog { ...C } }")
    await q("4 var in list literal wrong type", "query($v: String){ echoInts(a: [1, $v]) }", variables={"v": "str"})
    await q("4b var in obj literal wrong type", "query($v: String){ echoInp(i: {a: $v}) }", variables={"v": "str"})
    await q("5 string for enum", '{ color(c: "RED") dog { name } }')
    await q("6 __bogus", "{ dog { __bogus name } }")
    await q("6b __schema nested", "{ dog { __schema { types { name } } name } }")
    await q("7 second subscription two roots", "subscription A { a } subscription B { a b }", operation_name="A")
    await q("7b sub repeated same field", "subscription { a a }")
    await q("8 float literal 1e999", "{ f(x: 1e999) }")
    for v in (3.0, decimal.Decimal(3), 2**31, True, "3", "3_000", " 3 ", float("nan")):
        box["i"] = v
        await q(f"9 int out {v!r}", "{ i }")
    await q("10 shared exception instance", "{ e1 e2 }")
    await q("11 default value escaping", '{ __type(name: "Query") { fields { name args { name defaultValue } } } a: __type(name: "Inp") { inputFields { name defaultValue } } }')
    await q("13 __typename on interface", "{ pet { __typename name } }")
    await q("14 nested cycle", "fragment A on Dog { name dog2: name ... on Dog { ...A } } { dog { ...A } }")
    await q("15 bad variable default, provided", "query($v: Int = \"abc\"){ echoInts(a: [$v]) }", variables={"v": 1})
    await q("15b bad variable default, used", "query($v: Int = \"abc\"){ echoInts(a: [$v]) }")
    await q("16 extra vars", "{ dog { name } }", variables={"zzz": 1})
    await q("exec defs", "type Foo { a: Int } { dog { name } }")
asyncio.run(main())
