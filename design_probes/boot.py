"""Bootstrap for the design-phase probes (NOT framework code).

Makes `import tartiflette` possible in this sandbox, where the native
libgraphqlparser library is absent: builds a do-nothing shared object so that
cffi's dlopen() succeeds, then replaces the one function that calls into it by
the prototype pure-Python parser next to this file.  The real framework uses a
genuine drop-in for the C ABI instead (see DESIGN.md section 2).
"""
import atexit
import os
import shutil
import subprocess
import sys
import tempfile

_HERE = os.path.dirname(os.path.abspath(__file__))
_REPO = os.environ.get("VERIF_REPO", "/repo")
_TMP = tempfile.mkdtemp(prefix="ttf_probe_")
atexit.register(shutil.rmtree, _TMP, True)
_STUB = """
#include <stddef.h>
struct GraphQLAstNode;
struct GraphQLAstNode *graphql_parse_string(const char *t, const char **e){static const char *m="stub";*e=m;return NULL;}
void graphql_error_free(const char *e){}
void graphql_node_free(struct GraphQLAstNode *n){}
const char *graphql_ast_to_json(const struct GraphQLAstNode *n){return "{}";}
"""
with open(os.path.join(_TMP, "stub.c"), "w") as f:
    f.write(_STUB)
subprocess.check_call(["gcc", "-shared", "-fPIC", "-o",
                       os.path.join(_TMP, "libgraphqlparser.so"),
                       os.path.join(_TMP, "stub.c")])
os.environ["LIBGRAPHQLPARSER_DIR"] = _TMP
sys.dont_write_bytecode = True
sys.path.insert(0, _REPO)
sys.path.insert(0, _HERE)

import proto_gqlparse  # noqa: E402
from tartiflette.language.parsers.libgraphqlparser import parser as _p  # noqa: E402
from tartiflette.types.exceptions.tartiflette import GraphQLSyntaxError  # noqa: E402


def _parse_to_json_ast(query):
    try:
        return proto_gqlparse.parse_to_json(query)
    except proto_gqlparse.GQLSyntaxError as e:
        raise GraphQLSyntaxError(str(e))


_p._parse_to_json_ast = _parse_to_json_ast
