#!/usr/bin/env python3
"""Regenerates /verif/MANIFEST.json from the table below + which vt/props/cXX.py exist."""
import json
import os

HERE = os.path.dirname(os.path.dirname(os.path.abspath(__file__)))
BASELINE = ("cd /repo && /venv/bin/python -m pytest -ra -q -p no:cacheprovider --timeout=900 "
            "--continue-on-collection-errors")

NOTE = ("Trusted base: CPython 3.12 of /venv; the vt drop-in for the absent libgraphqlparser (shim/gqlshim.cpp, "
        "differentially tested against vt/pyparser.py and upstream's parser tests); the vt generators and reference "
        "models. Verdict is 'held on the executions observed', never 'verified'.")

P = {
    "C01": ("exploration", "refmodel",
            "reference-model monitor: recording resolvers + spec-section-6 reference executor over generated schema/document/data worlds",
            "Differential runtime monitoring of Engine.execute against an independent transcription of the spec's "
            "execution algorithm, over thousands of generated schemas x documents x resolver-data worlds per run; resolver "
            "call histories (parent identity, coerced args, context identity) are checked as multisets. Exploration is the "
            "right level: the input space is unbounded, the oracle is exact.", "5.C01"),
    "C02": ("fault_enumeration", "refmodel",
            "fault-injection monitor: every single fault point x kind enumerated per request, then pairs/subsets; reference null-propagation + error accounting oracle",
            "Every resolver instance reached by a request is made to fail in every applicable way (raise, library error "
            "with extensions, error returned as value, null at non-null, unserialisable leaf, non-list, unknown/foreign "
            "runtime type, at field and list-item level), one at a time exhaustively, then in pairs and random subsets; "
            "data must equal the reference's propagation result and errors must be sound and complete w.r.t. it.", "5.C02"),
    "C03": ("exploration", "refmodel",
            "schema-conformance monitor on responses under an adversarial resolver-value universe",
            "Resolvers return values from a hostile universe at every position; a structural checker (no expected "
            "value needed) verifies that whatever comes back conforms to schema+selection, nulls are explained, and the "
            "response is JSON-serialisable.", "5.C03"),
    "C04": ("exploration", "refmodel",
            "echo-resolver monitor + three-valued reference CoerceVariableValues over right/wrong/borderline JSON at every position",
            "Echo fields expose exactly what resolvers receive; the reference coercion decides accept/reject and the "
            "value, three-valued where the spec leaves latitude; refusals must happen with zero resolver calls.", "5.C04"),
    "C05": ("exploration", "refmodel",
            "metamorphic argument monitor: one abstract value rendered in every spelling (literal, variable, nested variable, defaults) must reach resolvers/hooks identically and match the reference; type monitor on every delivered dict",
            "Metamorphic + reference + type-checking monitors over all supply modes of an argument value.", "5.C05"),
    "C06": ("exploration", "refmodel",
            "valid-by-construction document generator (fragment DAGs with sharing etc.) + validation-tag scan + C01 reference equality",
            "Legal-but-unusual documents must never be answered with a validation error and must execute to the "
            "reference result.", "5.C06"),
    "C07": ("fault_enumeration", "refmodel",
            "rule x site enumeration of violation-injecting rewrites of valid documents; call counters on resolvers/type resolvers/hooks must stay 0",
            "For each valid document every applicable rewrite from a catalogue covering all supported rules is applied "
            "at every applicable node; the response must be data:null + errors and no user code may run.", "5.C07"),
    "C08": ("exploration", "scheduler",
            "controlled asyncio scheduler owning every user suspension point: exhaustive enumeration of resolver completion orders (DFS by stateless replay) x 2x2x2 concurrency configurations; offline log checker",
            "The only suspension points are user coroutines; gating them gives the harness the whole schedule space, "
            "enumerated exhaustively for small requests and sampled beyond; responses must be identical and logs well-formed.", "5.C08"),
    "C09": ("exploration", "scheduler",
            "offline interval-order check on scheduler logs of mutations under all nested schedules",
            "Serial execution of mutation roots is an ordering property of the event log; checked under every explored "
            "schedule of the nested resolvers.", "5.C09"),
    "C10": ("exploration", "scalar-tables",
            "law tables (must/must-not/either) over a boundary value universe, on the scalar objects and through echo fields of Engine.execute",
            "Exhaustive over the fixed boundary table plus a seeded random tail; three directions x eight scalars.", "5.C10"),
    "C11": ("exploration", "schema-model",
            "expected-introspection oracle computed from the schema model, over four SDL supply modes",
            "The model is the ground truth; introspection output is compared field by field.", "5.C11"),
    "C12": ("fault_enumeration", "schema-model",
            "clause x site enumeration of SDL violation rewrites; create_engine must raise",
            "Each checked schema rule is broken at every applicable site of valid models.", "5.C12"),
    "C13": ("exploration", "refmodel",
            "non-commuting tagging hooks make the composition order legible in data; fold oracle + exactly-once counters",
            "Every hook appends a tag, so the final string is the trace of the pipeline; compared with the documented fold.", "5.C13"),
    "C14": ("exploration", "refmodel",
            "recording source + per-event reference execution; sequence position-by-position",
            "Each event carries a unique id; the yielded sequence must be the image of the event sequence.", "5.C14"),
    "C15": ("exploration", "scheduler",
            "solo-vs-concurrent differential under a cross-request controlled scheduler + fingerprint invariants on cached documents and schema",
            "Requests interleaved at every user suspension point must each answer as when alone.", "5.C15"),
    "C16": ("exploration", "history",
            "position-by-position differential of cached engines against uncached/fresh engines over request sequences; recording cache decorators",
            "History independence is checked on generated sequences over several cache configurations.", "5.C16"),
    "C17": ("exploration", "schema-model",
            "co-resident engines vs fresh-subprocess engines on a probe battery; registry snapshot invariants",
            "Bundles with overlapping names, all registration/cooking orders.", "5.C17"),
    "C18": ("exploration", "envelope-fuzz",
            "response-envelope monitor + stamping error coercer over random/mutated/hostile inputs",
            "Fuzzed query text/bytes, operation names, variables and error coercers; envelope and coercer accounting checked on every response.", "5.C18"),
}


def main():
    checks, na = [], []
    for pid, (level, engine, technique, text, ref) in P.items():
        if os.path.exists(os.path.join(HERE, "vt", "props", pid.lower() + ".py")):
            checks.append({
                "property_id": pid,
                "quick_cmd": "./check %s --tier quick" % pid,
                "thorough_cmd": "./check %s --tier thorough" % pid,
                "evidence_file": "/verif/evidence/%s.json" % pid,
                "replay_cmd_template": "./check %s --replay {path}" % pid,
                "engine": engine,
                "level_claimed": {"category": level, "text": text, "design_ref": "DESIGN.md section " + ref},
                "level_note": NOTE,
                "technique": "runtime monitoring: " + technique,
            })
        else:
            na.append({"property_id": pid, "reason": "check not built yet (runtime monitoring applies; see DESIGN.md section %s)" % ref})
    engines = {}
    for pid, (level, engine, *_r) in P.items():
        engines.setdefault(engine, []).append(pid)
    m = {
        "version": 1,
        "setup_cmd": "./setup.sh",
        "hooks": {"guard": "TARTIFLETTE_VERIF", "enable": "none needed: no hooks were added to /repo; every observation point is a public extension point (resolvers, type resolvers, directives, scalars, subscriptions, error_coercer, query_cache_decorator) plus sys.monitoring",
                  "baseline_off_cmd": BASELINE, "source_commits": [], "add_only": True},
        "engines": [{"name": k, "path": "/verif/vt", "serves_properties": v, "kind_free_text": "runtime monitor"} for k, v in engines.items()],
        "checks": checks,
        "notes": "All checks: ./check Cxx --tier quick|thorough; honour VERIF_SEED, VERIF_TIER, VERIF_REPO, VERIF_SCALE. Exit 2 + INCONCLUSIVE line when a deciding monitor was not reached. known_findings.json lists genuine defects (findings/fixed).",
        "not_applicable": na,
    }
    with open(os.path.join(HERE, "MANIFEST.json"), "w") as f:
        json.dump(m, f, indent=1)
    print("claimed:", [c["property_id"] for c in checks])


if __name__ == "__main__":
    main()
