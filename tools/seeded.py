#!/usr/bin/env python3
"""Independent seeded breaks (written by sub-agents that saw only the property text).

    tools/seeded.py import /tmp/out_C05 [--checks C05,C04]   verify each k/ (baseline 641, demo fails with / passes
                                                              without the patch), run the checks, store under seeded/
    tools/seeded.py run [--id C05-1] [--checks ..] [--tier quick]   re-run the checks against stored breaks
    tools/seeded.py table                                        markdown table of seeded/*/meta.json

Every run uses a scratch copy of /repo (tartiflette/ + tests/) under /dev/shm with the patch applied; the copy is
removed immediately afterwards.  Nothing is ever applied to /repo itself.
"""
import argparse
import json
import os
import re
import shutil
import subprocess
import sys
import tempfile
import time

HERE = os.path.dirname(os.path.dirname(os.path.abspath(__file__)))
REPO = "/repo"
ENV_RUN = {"LIBGRAPHQLPARSER_DIR": os.path.join(HERE, "build", "shim"), "PYTHONDONTWRITEBYTECODE": "1"}


def scratch(patch=None):
    d = tempfile.mkdtemp(prefix="vtseed_", dir="/dev/shm")
    for sub in ("tartiflette", "tests"):
        shutil.copytree(os.path.join(REPO, sub), os.path.join(d, sub), ignore=shutil.ignore_patterns("__pycache__"))
    for f in ("setup.cfg", "setup.py", "pyproject.toml"):
        if os.path.exists(os.path.join(REPO, f)):
            shutil.copy(os.path.join(REPO, f), d)
    if patch:
        r = subprocess.run(["patch", "-p1", "-s", "-d", d, "-i", patch], capture_output=True, text=True)
        if r.returncode != 0:
            shutil.rmtree(d, ignore_errors=True)
            raise SystemExit("patch does not apply: %s\n%s" % (patch, r.stdout + r.stderr))
    return d


def baseline(d):
    r = subprocess.run(["/venv/bin/python", "-m", "pytest", "-q", "-p", "no:cacheprovider", "--timeout=900",
                        "--continue-on-collection-errors"], cwd=d, capture_output=True, text=True)
    tail = (r.stdout.strip().splitlines() or [""])[-1]
    m = re.search(r"(\d+) passed", tail)
    return int(m.group(1)) if m else -1, tail


def demo(d, demo_py):
    env = dict(os.environ, PYTHONPATH=d, **ENV_RUN)
    r = subprocess.run(["/venv/bin/python", demo_py], env=env, capture_output=True, text=True, timeout=600, cwd=os.path.dirname(demo_py))
    return r.returncode, (r.stdout + r.stderr).strip()[-300:]


def run_check(pid, tier, repo):
    env = dict(os.environ, VERIF_REPO=repo, VERIF_SEED=os.environ.get("VERIF_SEED", "0"), VERIF_OUT=os.path.join(repo, "_out"))
    t0 = time.time()
    r = subprocess.run([os.path.join(HERE, "check"), pid, "--tier", tier], env=env, capture_output=True, text=True, cwd=HERE)
    out = r.stdout + r.stderr
    first = ""
    for line in out.splitlines():
        if line.startswith("   ") and not first:
            first = line.strip()[:220]
    if r.returncode == 2:
        first = next((l for l in out.splitlines() if l.startswith("INCONCLUSIVE")), "")[:220]
    # margin: how many violations the run reported (a catch resting on one or two witnesses is fragile against shifts of
    # the random streams)
    nviol = sum(1 for l in out.splitlines() if l.startswith("VIOLATION "))
    m = re.search(r"\(\+(\d+) more violations\)", out)
    if m:
        nviol += int(m.group(1))
    if r.returncode == 1:
        first = "[%d] %s" % (nviol, first)
    return {0: "missed", 1: "caught", 2: "inconclusive"}.get(r.returncode, "rc=%d" % r.returncode), round(time.time() - t0, 1), first


def slug(s):
    return re.sub(r"[^a-z0-9]+", "-", s.lower()).strip("-")[:40]


def cmd_import(a):
    src = a.dir
    for k in sorted(os.listdir(src)):
        kd = os.path.join(src, k)
        if not os.path.exists(os.path.join(kd, "patch.diff")):
            continue
        meta = json.load(open(os.path.join(kd, "meta.json")))
        prop = meta.get("property") or a.prop
        sid = "%s-%s%s-%s" % (prop, a.round, k, slug(meta.get("title", "x")))
        print("==", sid)
        d = scratch(os.path.join(kd, "patch.diff"))
        d0 = scratch(None)
        try:
            passed, tail = baseline(d)
            rc1, out1 = demo(d, os.path.join(kd, "demo.py"))
            rc0, out0 = demo(d0, os.path.join(kd, "demo.py"))
            ok = passed == 641 and rc1 != 0 and rc0 == 0
            print("   baseline:", tail, "| demo with patch rc=%d | without rc=%d | %s" % (rc1, rc0, "VERIFIED" if ok else "REJECTED"))
            if not ok:
                continue
            checks = (a.checks.split(",") if a.checks else [prop])
            results = {}
            for pid in checks:
                v, dt, first = run_check(pid, a.tier, d)
                results[pid] = {"verdict": v, "seconds": dt, "tier": a.tier, "first_report": first}
                print("   %s %s %.1fs %s" % (pid, v, dt, first))
            dest = os.path.join(HERE, "seeded", sid)
            os.makedirs(dest, exist_ok=True)
            shutil.copy(os.path.join(kd, "patch.diff"), dest)
            shutil.copy(os.path.join(kd, "demo.py"), dest)
            meta.update({"id": sid, "verified": {"baseline_passed": passed, "demo_with_patch_rc": rc1, "demo_without_patch_rc": rc0,
                                                 "demo_with_patch_tail": out1[-160:], "how": "tools/seeded.py import (scratch copy of /repo at %s)" % head()},
                         "checks": results})
            json.dump(meta, open(os.path.join(dest, "meta.json"), "w"), indent=1)
        finally:
            shutil.rmtree(d, ignore_errors=True)
            shutil.rmtree(d0, ignore_errors=True)


def head():
    return subprocess.check_output(["git", "-C", REPO, "log", "--format=%h", "-1"], text=True).strip()


def cmd_run(a):
    base = os.path.join(HERE, "seeded")
    for sid in sorted(os.listdir(base)):
        if a.id and not sid.startswith(a.id):
            continue
        mp = os.path.join(base, sid, "meta.json")
        if not os.path.exists(mp):
            continue
        meta = json.load(open(mp))
        checks = a.checks.split(",") if a.checks else sorted(meta.get("checks") or {meta["property"]: 0})
        d = scratch(os.path.join(base, sid, "patch.diff"))
        try:
            for pid in checks:
                v, dt, first = run_check(pid, a.tier, d)
                meta.setdefault("checks", {})[pid] = {"verdict": v, "seconds": dt, "tier": a.tier, "first_report": first}
                print("%-58s %s %-12s %5.1fs %s" % (sid, pid, v, dt, first[:140]))
                sys.stdout.flush()
        finally:
            shutil.rmtree(d, ignore_errors=True)
        json.dump(meta, open(mp, "w"), indent=1)


def cmd_table(a):
    base = os.path.join(HERE, "seeded")
    print("| seeded break | property | needs to manifest | caught by (now) | first run |\n|---|---|---|---|---|")
    for sid in sorted(os.listdir(base)):
        mp = os.path.join(base, sid, "meta.json")
        if not os.path.exists(mp):
            continue
        m = json.load(open(mp))
        c = m.get("checks", {})
        print("| %s | %s | %s | %s | %s |" % (sid, m["property"], str(m.get("needs_to_manifest", ""))[:110].replace("|", "/"),
                                             ", ".join(k for k, v in c.items() if v["verdict"] == "caught"),
                                             str(m.get("first_run", ""))[:200].replace("|", "/")))


def main():
    ap = argparse.ArgumentParser()
    sub = ap.add_subparsers(dest="cmd")
    i = sub.add_parser("import")
    i.add_argument("dir")
    i.add_argument("--checks")
    i.add_argument("--prop")
    i.add_argument("--tier", default="quick")
    i.add_argument("--round", default="")
    r = sub.add_parser("run")
    r.add_argument("--id")
    r.add_argument("--checks")
    r.add_argument("--tier", default="quick")
    sub.add_parser("table")
    a = ap.parse_args()
    {"import": cmd_import, "run": cmd_run, "table": cmd_table}[a.cmd](a)


if __name__ == "__main__":
    main()
