#!/bin/sh
# Runs upstream's own unit+functional tests (uncollectable without the native parser) under the vt shim.
# Informational: used to make sure "fix:" commits keep upstream's expectations.
HERE="$(cd "$(dirname "$0")/.." && pwd)"
bash "$HERE/shim/build.sh" >/dev/null 2>&1
cd "${VERIF_REPO:-/repo}" && LIBGRAPHQLPARSER_DIR="$HERE/build/shim" PYTHONDONTWRITEBYTECODE=1 \
  /venv/bin/python -m pytest -q -p no:cacheprovider -o asyncio_mode=auto -x -q -n 8 "${@:-tests/unit tests/functional}" 2>&1 | tail -15
