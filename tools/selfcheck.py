#!/usr/bin/env python3
"""Run checks against seeded mutants of tartiflette (scratch copies outside /repo and /verif).

    tools/selfcheck.py [-m NAME ...] [--checks C01,C02] [--tier quick] [--baseline]

Each mutant in selfcheck/mutants.py is (name, property ids expected to catch it, file, old, new).
A scratch copy of /repo/tartiflette is made under /dev/shm, the replacement applied, the
listed checks run with VERIF_REPO pointing there, and the copy removed immediately.
With --baseline the repository's own test-suite is also run on the mutant (needs tests/).
Results are appended to selfcheck/RESULTS.md by --write.
"""
import argparse
import importlib.util
import json
import os
import re
import shutil
import subprocess
import sys
import tempfile
import time

HERE = os.path.dirname(os.path.dirname(os.path.abspath(__file__)))
REPO = "/repo"


def load_mutants():
    spec = importlib.util.spec_from_file_location("mutants", os.path.join(HERE, "selfcheck", "mutants.py"))
    m = importlib.util.module_from_spec(spec)
    spec.loader.exec_module(m)
    return m.MUTANTS


def make_copy(with_tests=False):
    d = tempfile.mkdtemp(prefix="vtmut_", dir="/dev/shm")
    shutil.copytree(os.path.join(REPO, "tartiflette"), os.path.join(d, "tartiflette"),
                    ignore=shutil.ignore_patterns("__pycache__"))
    if with_tests:
        shutil.copytree(os.path.join(REPO, "tests"), os.path.join(d, "tests"), ignore=shutil.ignore_patterns("__pycache__"))
        for f in ("setup.cfg", "setup.py", "pyproject.toml"):
            if os.path.exists(os.path.join(REPO, f)):
                shutil.copy(os.path.join(REPO, f), d)
    return d


def apply(d, file, old, new, count=1):
    p = os.path.join(d, file)
    s = open(p).read()
    if old not in s:
        raise SystemExit("mutant pattern not found in %s: %r" % (file, old[:80]))
    open(p, "w").write(s.replace(old, new, count))


def run_check(pid, tier, repo, seed="0", build=None):
    env = dict(os.environ, VERIF_REPO=repo, VERIF_SEED=seed)
    env["VERIF_BUILD"] = build or os.path.join(HERE, "build")
    env["VERIF_OUT"] = os.path.join(repo, "_out")
    t0 = time.time()
    r = subprocess.run([os.path.join(HERE, "check"), pid, "--tier", tier], env=env, capture_output=True, text=True, cwd=HERE)
    out = r.stdout + r.stderr
    first = ""
    for line in out.splitlines():
        if line.startswith("   ") and not first:
            first = line.strip()[:160]
    return r.returncode, time.time() - t0, first, out


def baseline(d):
    r = subprocess.run(["/venv/bin/python", "-m", "pytest", "-q", "-p", "no:cacheprovider", "--timeout=900",
                        "--continue-on-collection-errors", "-x", "--co", "-q"], cwd=d, capture_output=True, text=True)
    r = subprocess.run(["/venv/bin/python", "-m", "pytest", "-q", "-p", "no:cacheprovider", "--timeout=900",
                        "--continue-on-collection-errors"], cwd=d, capture_output=True, text=True)
    m = re.search(r"(\d+) passed", r.stdout)
    return int(m.group(1)) if m else -1


def main():
    ap = argparse.ArgumentParser()
    ap.add_argument("-m", "--mutant", action="append")
    ap.add_argument("--checks")
    ap.add_argument("--tier", default="quick")
    ap.add_argument("--baseline", action="store_true")
    ap.add_argument("--write", action="store_true")
    ap.add_argument("--prop")
    a = ap.parse_args()
    muts = load_mutants()
    rows = []
    for m in muts:
        name, props, file, old, new = m[:5]
        if a.mutant and name not in a.mutant:
            continue
        if a.prop and a.prop not in props:
            continue
        d = make_copy(a.baseline)
        try:
            apply(d, file, old, new)
            passed = baseline(d) if a.baseline else None
            checks = a.checks.split(",") if a.checks else props
            for pid in checks:
                rc, dt, first, out = run_check(pid, a.tier, d)
                verdict = {0: "MISSED", 1: "caught", 2: "inconclusive"}.get(rc, "rc=%s" % rc)
                rows.append((name, pid, verdict, round(dt, 1), passed, first))
                print("%-40s %-4s %-12s %5.1fs %s %s" % (name, pid, verdict, dt, "" if passed is None else "tests=%d" % passed, first))
                sys.stdout.flush()
        finally:
            shutil.rmtree(d, ignore_errors=True)
    if a.write:
        with open(os.path.join(HERE, "selfcheck", "RESULTS.md"), "a") as f:
            f.write("\n## run %s tier=%s\n\n| mutant | check | verdict | s | baseline passed | first report |\n|---|---|---|---|---|---|\n" % (
                time.strftime("%Y-%m-%d %H:%M"), a.tier))
            for r in rows:
                f.write("| %s | %s | %s | %s | %s | %s |\n" % tuple("" if x is None else str(x).replace("|", "/") for x in r))
    missed = [r for r in rows if r[2] != "caught"]
    print("%d runs, %d not caught" % (len(rows), len(missed)))


if __name__ == "__main__":
    main()
