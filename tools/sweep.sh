#!/bin/sh
# tools/sweep.sh TIER SEED... : runs every claimed check for each seed, prints one line per (check, seed) with exit code.
# Evidence/replays go to a scratch VERIF_OUT so that committed evidence is not overwritten.
HERE="$(cd "$(dirname "$0")/.." && pwd)"
TIER="$1"; shift
OUT="${SWEEP_OUT:-$HERE/build/sweep}"
mkdir -p "$OUT"
CHECKS="${SWEEP_CHECKS:-$(python3 -c "import json;print(' '.join(c['property_id'] for c in json.load(open('$HERE/MANIFEST.json'))['checks']))")}"
for seed in "$@"; do
  for c in $CHECKS; do
    start=$(date +%s)
    VERIF_OUT="$OUT/s$seed" VERIF_SEED=$seed "$HERE/check" $c --tier $TIER > "$OUT/$c.s$seed.$TIER.log" 2>&1
    rc=$?
    echo "$c seed=$seed tier=$TIER rc=$rc $(( $(date +%s) - start ))s $(grep -c '^VIOLATION' "$OUT/$c.s$seed.$TIER.log") violations $(grep -m1 -E '^(VIOLATION|INCONCLUSIVE)' "$OUT/$c.s$seed.$TIER.log" | cut -c1-150)"
  done
done
