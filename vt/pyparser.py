"""Scratch GraphQL (June 2018 executable + type-system) parser emitting the
libgraphqlparser JSON AST shape.  Exploration only."""
import json
import re
import sys


class GQLSyntaxError(Exception):
    pass


# Nesting bound shared by selection sets, list/object values and list types.
# Must stay identical to kMaxDepth in shim/gqlshim.cpp.
MAX_DEPTH = 400

_PUNCT = {"!", "$", "(", ")", ":", "=", "@", "[", "]", "{", "|", "}", "&"}
_NAME_RE = re.compile(rb"[_A-Za-z][_0-9A-Za-z]*")
_NUM_RE = re.compile(rb"-?(0|[1-9][0-9]*)(\.[0-9]+)?([eE][+-]?[0-9]+)?")


class Tok:
    __slots__ = ("kind", "value", "sl", "sc", "el", "ec")

    def __init__(self, kind, value, sl, sc, el, ec):
        self.kind, self.value, self.sl, self.sc, self.el, self.ec = (
            kind, value, sl, sc, el, ec)


def _block_string_value(raw):
    lines = re.split(r"\r\n|[\n\r]", raw)
    common = None
    for line in lines[1:]:
        indent = len(line) - len(line.lstrip(" \t"))
        if indent < len(line) and (common is None or indent < common):
            common = indent
    if common:
        lines = [lines[0]] + [l[common:] for l in lines[1:]]
    while lines and not lines[0].strip(" \t"):
        lines.pop(0)
    while lines and not lines[-1].strip(" \t"):
        lines.pop()
    return "\n".join(lines)


def lex(src: bytes):
    toks = []
    i, n = 0, len(src)
    line, col = 1, 1
    if src.startswith(b"\xef\xbb\xbf"):
        i = 3
        col = 4
    while i < n:
        c = src[i:i + 1]
        if c in (b" ", b"\t", b","):
            i += 1
            col += 1
            continue
        if c == b"\n":
            i += 1
            line += 1
            col = 1
            continue
        if c == b"\r":
            i += 1
            if src[i:i + 1] == b"\n":
                i += 1
            line += 1
            col = 1
            continue
        if c == b"#":
            while i < n and src[i:i + 1] not in (b"\n", b"\r"):
                i += 1
                col += 1
            continue
        if src[i:i + 3] == b"...":
            toks.append(Tok("...", "...", line, col, line, col + 3))
            i += 3
            col += 3
            continue
        ch = c.decode("latin1")
        if ch in _PUNCT:
            toks.append(Tok(ch, ch, line, col, line, col + 1))
            i += 1
            col += 1
            continue
        m = _NAME_RE.match(src, i)
        if m:
            s = m.group().decode()
            toks.append(Tok("NAME", s, line, col, line, col + len(s)))
            i = m.end()
            col += len(s)
            continue
        m = _NUM_RE.match(src, i)
        if m:
            s = m.group().decode()
            nxt = src[m.end():m.end() + 1]
            if nxt and (nxt.isalnum() or nxt in (b"_", b".")):
                raise GQLSyntaxError(
                    f"{line}.{col}: invalid number")
            kind = "FLOAT" if (m.group(2) or m.group(3)) else "INT"
            toks.append(Tok(kind, s, line, col, line, col + len(s)))
            i = m.end()
            col += len(s)
            continue
        if src[i:i + 3] == b'"""':
            sl, sc = line, col
            j = i + 3
            col += 3
            buf = bytearray()
            while True:
                if j >= n:
                    raise GQLSyntaxError(f"{sl}.{sc}: Unterminated block string")
                if src[j:j + 4] == b'\\"""':
                    buf += b'"""'
                    j += 4
                    col += 4
                    continue
                if src[j:j + 3] == b'"""':
                    j += 3
                    col += 3
                    break
                b = src[j:j + 1]
                if b == b"\n":
                    line += 1
                    col = 1
                elif b == b"\r":
                    if src[j + 1:j + 2] != b"\n":
                        line += 1
                        col = 1
                else:
                    col += 1
                buf += b
                j += 1
            try:
                raw = buf.decode("utf-8")
            except UnicodeDecodeError:
                raise GQLSyntaxError(f"{sl}.{sc}: invalid utf-8")
            toks.append(Tok("STRING", _block_string_value(raw), sl, sc, line, col))
            i = j
            continue
        if c == b'"':
            sl, sc = line, col
            j = i + 1
            col += 1
            buf = bytearray()
            while True:
                if j >= n or src[j:j + 1] in (b"\n", b"\r"):
                    raise GQLSyntaxError(f"{sl}.{sc}: Unterminated string")
                b = src[j:j + 1]
                if b == b'"':
                    j += 1
                    col += 1
                    break
                if b == b"\\":
                    e = src[j + 1:j + 2]
                    simple = {b'"': b'"', b"\\": b"\\", b"/": b"/", b"b": b"\b",
                              b"f": b"\f", b"n": b"\n", b"r": b"\r", b"t": b"\t"}
                    if e in simple:
                        buf += simple[e]
                        j += 2
                        col += 2
                        continue
                    if e == b"u":
                        hx = src[j + 2:j + 6]
                        if len(hx) == 4 and re.fullmatch(rb"[0-9a-fA-F]{4}", hx):
                            buf += chr(int(hx, 16)).encode("utf-8", "surrogatepass")
                            j += 6
                            col += 6
                            continue
                    raise GQLSyntaxError(f"{line}.{col}: bad character escape")
                if b[0] < 0x20 and b != b"\t":
                    raise GQLSyntaxError(f"{line}.{col}: invalid character")
                buf += b
                j += 1
                col += 1
            try:
                val = buf.decode("utf-8", "surrogatepass")
            except UnicodeDecodeError:
                raise GQLSyntaxError(f"{sl}.{sc}: invalid utf-8")
            toks.append(Tok("STRING", val, sl, sc, line, col))
            i = j
            continue
        raise GQLSyntaxError(f"{line}.{col}: unrecognized character \\x{src[i]:02x}")
    toks.append(Tok("EOF", None, line, col, line, col))
    return toks


class Parser:
    def __init__(self, src: bytes):
        self.toks = lex(src)
        self.p = 0
        self.last = None
        self.depth = 0

    # helpers
    def peek(self, k=0):
        return self.toks[min(self.p + k, len(self.toks) - 1)]

    def adv(self):
        t = self.toks[self.p]
        self.p += 1
        self.last = t
        return t

    def err(self, what):
        t = self.peek()
        raise GQLSyntaxError(
            f"{t.sl}.{t.sc}-{t.ec}: syntax error, unexpected "
            f"{t.kind if t.kind != 'NAME' else 'IDENTIFIER'}, expecting {what}")

    def enter(self, t):
        # t: the "{" / "[" token opening the nesting level being entered
        if self.depth >= MAX_DEPTH:
            raise GQLSyntaxError(
                f"{t.sl}.{t.sc}: syntax error, memory exhausted")
        self.depth += 1

    def leave(self):
        self.depth -= 1

    def expect(self, kind):
        if self.peek().kind != kind:
            self.err(kind)
        return self.adv()

    def is_name(self, val=None):
        t = self.peek()
        return t.kind == "NAME" and (val is None or t.value == val)

    def node(self, kind, start, **fields):
        end = self.last
        d = {"kind": kind,
             "loc": {"start": {"line": start.sl, "column": start.sc},
                     "end": {"line": end.el, "column": end.ec}}}
        d.update(fields)
        return d

    def name(self):
        t = self.expect("NAME")
        return self.node("Name", t, value=t.value)

    # document
    def document(self):
        start = self.peek()
        defs = []
        if start.kind == "EOF":
            self.err("definition")
        while self.peek().kind != "EOF":
            defs.append(self.definition())
        return self.node("Document", start, definitions=defs)

    def definition(self):
        t = self.peek()
        if t.kind == "{":
            start = t
            ss = self.selection_set()
            return self.node("OperationDefinition", start, operation="query",
                             name=None, variableDefinitions=None,
                             directives=None, selectionSet=ss)
        if t.kind == "NAME":
            if t.value in ("query", "mutation", "subscription"):
                return self.operation()
            if t.value == "fragment":
                return self.fragment_definition()
            if t.value in ("schema", "scalar", "type", "interface", "union",
                           "enum", "input", "directive", "extend"):
                return self.type_system_definition()
        if t.kind == "STRING":
            return self.type_system_definition()
        self.err("definition")

    def operation(self):
        start = self.adv()
        name = self.name() if self.is_name() else None
        vdefs = None
        if self.peek().kind == "(":
            self.adv()
            vdefs = []
            while self.peek().kind != ")":
                vdefs.append(self.variable_definition())
            if not vdefs:
                self.err("$")
            self.adv()
        dirs = self.directives(False)
        ss = self.selection_set()
        return self.node("OperationDefinition", start, operation=start.value,
                         name=name, variableDefinitions=vdefs, directives=dirs,
                         selectionSet=ss)

    def variable(self):
        start = self.expect("$")
        n = self.name()
        return self.node("Variable", start, name=n)

    def variable_definition(self):
        start = self.peek()
        var = self.variable()
        self.expect(":")
        typ = self.type_()
        dv = None
        if self.peek().kind == "=":
            self.adv()
            dv = self.value(True)
        return self.node("VariableDefinition", start, variable=var, type=typ,
                         defaultValue=dv)

    def type_(self):
        start = self.peek()
        if start.kind == "[":
            self.adv()
            self.enter(start)
            inner = self.type_()
            self.expect("]")
            self.leave()
            t = self.node("ListType", start, type=inner)
        else:
            n = self.name()
            t = self.node("NamedType", start, name=n)
        if self.peek().kind == "!":
            self.adv()
            t = self.node("NonNullType", start, type=t)
        return t

    def selection_set(self):
        start = self.expect("{")
        self.enter(start)
        sels = []
        while self.peek().kind != "}":
            sels.append(self.selection())
        if not sels:
            self.err("selection")
        self.adv()
        self.leave()
        return self.node("SelectionSet", start, selections=sels)

    def selection(self):
        t = self.peek()
        if t.kind == "...":
            start = self.adv()
            if self.is_name() and self.peek().value != "on":
                n = self.name()
                dirs = self.directives(False)
                return self.node("FragmentSpread", start, name=n, directives=dirs)
            tc = None
            if self.is_name("on"):
                self.adv()
                ts = self.peek()
                n = self.name()
                tc = self.node("NamedType", ts, name=n)
            dirs = self.directives(False)
            ss = self.selection_set()
            return self.node("InlineFragment", start, typeCondition=tc,
                             directives=dirs, selectionSet=ss)
        if t.kind == "NAME":
            start = t
            n = self.name()
            alias = None
            if self.peek().kind == ":":
                self.adv()
                alias = n
                n = self.name()
            args = self.arguments(False)
            dirs = self.directives(False)
            ss = self.selection_set() if self.peek().kind == "{" else None
            return self.node("Field", start, alias=alias, name=n, arguments=args,
                             directives=dirs, selectionSet=ss)
        self.err("selection")

    def arguments(self, const):
        if self.peek().kind != "(":
            return None
        self.adv()
        args = []
        while self.peek().kind != ")":
            start = self.peek()
            n = self.name()
            self.expect(":")
            v = self.value(const)
            args.append(self.node("Argument", start, name=n, value=v))
        if not args:
            self.err("argument")
        self.adv()
        return args

    def directives(self, const):
        dirs = []
        while self.peek().kind == "@":
            start = self.adv()
            n = self.name()
            args = self.arguments(const)
            dirs.append(self.node("Directive", start, name=n, arguments=args))
        return dirs or None

    def fragment_definition(self):
        start = self.adv()
        if self.is_name("on"):
            self.err("fragment name")
        n = self.name()
        if not self.is_name("on"):
            self.err("on")
        self.adv()
        ts = self.peek()
        tn = self.name()
        tc = self.node("NamedType", ts, name=tn)
        dirs = self.directives(False)
        ss = self.selection_set()
        return self.node("FragmentDefinition", start, name=n, typeCondition=tc,
                         directives=dirs, selectionSet=ss)

    def value(self, const):
        t = self.peek()
        if t.kind == "$":
            if const:
                self.err("constant value")
            return self.variable()
        if t.kind == "INT":
            self.adv()
            return self.node("IntValue", t, value=t.value)
        if t.kind == "FLOAT":
            self.adv()
            return self.node("FloatValue", t, value=t.value)
        if t.kind == "STRING":
            self.adv()
            return self.node("StringValue", t, value=t.value)
        if t.kind == "NAME":
            self.adv()
            if t.value in ("true", "false"):
                return self.node("BooleanValue", t, value=(t.value == "true"))
            if t.value == "null":
                return self.node("NullValue", t)
            return self.node("EnumValue", t, value=t.value)
        if t.kind == "[":
            self.adv()
            self.enter(t)
            vals = []
            while self.peek().kind != "]":
                vals.append(self.value(const))
            self.adv()
            self.leave()
            return self.node("ListValue", t, values=vals)
        if t.kind == "{":
            self.adv()
            self.enter(t)
            fields = []
            while self.peek().kind != "}":
                fs = self.peek()
                n = self.name()
                self.expect(":")
                v = self.value(const)
                fields.append(self.node("ObjectField", fs, name=n, value=v))
            self.adv()
            self.leave()
            return self.node("ObjectValue", t, fields=fields)
        self.err("value")

    # minimal type-system support: enough to emit a non executable definition
    def type_system_definition(self):
        start = self.peek()
        if start.kind == "STRING":
            self.adv()
        kw = self.expect("NAME")
        kind = {"schema": "SchemaDefinition", "scalar": "ScalarTypeDefinition",
                "type": "ObjectTypeDefinition", "interface": "InterfaceTypeDefinition",
                "union": "UnionTypeDefinition", "enum": "EnumTypeDefinition",
                "input": "InputObjectTypeDefinition",
                "directive": "DirectiveDefinition",
                "extend": "TypeExtensionDefinition"}.get(kw.value)
        if kind is None:
            self.err("definition")
        depth = 0
        # swallow tokens up to the end of this definition (balanced braces)
        while True:
            t = self.peek()
            if t.kind == "EOF":
                break
            if t.kind == "{":
                depth += 1
            elif t.kind == "}":
                depth -= 1
                if depth == 0:
                    self.adv()
                    break
            elif depth == 0 and t.kind == "NAME" and t is not kw and t.value in (
                    "query", "mutation", "subscription", "fragment", "schema",
                    "scalar", "type", "interface", "union", "enum", "input",
                    "directive", "extend") and self.last is not kw and self.last.kind not in (":", "@", "|", "=", "&"):
                break
            self.adv()
        return self.node(kind, start)


def parse_to_json(src) -> bytes:
    if isinstance(src, str):
        src = src.encode("utf-8")
    nul = src.find(b"\x00")
    if nul >= 0:
        src = src[:nul]
    # The recursive descent uses <= 2 Python frames per nesting level and the
    # nesting is bounded by MAX_DEPTH: give it that much headroom on top of
    # whatever the caller's limit is, so RecursionError can never be hit.
    old_limit = sys.getrecursionlimit()
    sys.setrecursionlimit(old_limit + 2 * MAX_DEPTH + 200)
    try:
        doc = Parser(src).document()
    finally:
        sys.setrecursionlimit(old_limit)
    return json.dumps(doc, ensure_ascii=False).encode("utf-8", "surrogatepass")
