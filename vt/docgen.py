"""Executable-document model, generator (valid by construction) and printer with spans."""
from vt import values
from vt.smodel import NODEF, N, NN, is_nn, named_of, nullable, print_value, tstr


class FieldSel:
    kind = "field"

    def __init__(self, name, alias=None, args=None, directives=None, selset=None):
        self.name, self.alias = name, alias
        self.args = args or []            # [(name, literal)]
        self.directives = directives or []  # [(name, [(arg, literal)])]
        self.selset = selset              # list | None
        self.span = None                  # ((l,c),(l,c)) end exclusive
        self.arg_spans = {}
        self.nid = None

    @property
    def key(self):
        return self.alias or self.name


class InlineFrag:
    kind = "inline"

    def __init__(self, typecond, directives=None, selset=None):
        self.typecond, self.directives, self.selset = typecond, directives or [], selset or []
        self.span = None


class Spread:
    kind = "spread"

    def __init__(self, name, directives=None):
        self.name, self.directives = name, directives or []
        self.span = None


class FragDef:
    def __init__(self, name, typecond, selset, directives=None):
        self.name, self.typecond, self.selset, self.directives = name, typecond, selset, directives or []
        self.span = None


class Op:
    def __init__(self, kind, name, selset, vardefs=None, directives=None):
        self.kind, self.name, self.selset = kind, name, selset
        self.vardefs = vardefs or []      # [(name, type, default|NODEF)]
        self.directives = directives or []
        self.vardef_spans = {}
        self.span = None


class Doc:
    def __init__(self):
        self.ops = []
        self.frags = {}
        self.order = []                   # [("op", idx) | ("frag", name)]
        self.text = None
        self.nodes = []                   # FieldSel by nid
        self.no_null_vars = set()         # variables feeding @skip/@include(if:)

    def op(self, name):
        if name is None:
            return self.ops[0] if len(self.ops) == 1 else None
        for o in self.ops:
            if o.name == name:
                return o
        return None


# --------------------------------------------------------------------------- printer

class Emitter:
    def __init__(self, rng=None, style=None):
        self.parts = []
        self.line, self.col = 1, 1
        self.rng = rng
        self.style = style or {}
        self.nl = self.style.get("nl", "\n")
        self.indent = 0

    def pos(self):
        return (self.line, self.col)

    def emit(self, text):
        self.parts.append(text)
        b = text.encode("utf-8", "surrogatepass")
        i, n = 0, len(b)
        while i < n:
            c = b[i]
            if c == 0x0A:
                self.line += 1
                self.col = 1
            elif c == 0x0D:
                if i + 1 < n and b[i + 1] == 0x0A:
                    i += 1
                self.line += 1
                self.col = 1
            else:
                self.col += 1
            i += 1

    def sep(self):
        """separator between selections / definitions"""
        if self.style.get("multiline"):
            self.emit(self.nl + "  " * self.indent)
        else:
            r = self.rng.random() if self.rng else 1
            if r < 0.1:
                self.emit(", ")
            elif r < 0.15:
                self.emit(" # c" + self.nl)
            else:
                self.emit(" ")

    def text(self):
        return "".join(self.parts)


def _emit_value(em, v):
    em.emit(print_value(v))


def _emit_args(em, args, spans=None):
    if not args:
        return
    em.emit("(")
    for i, (n, v) in enumerate(args):
        if i:
            em.emit(", ")
        st = em.pos()
        em.emit(n + ": ")
        _emit_value(em, v)
        if spans is not None:
            spans.setdefault(n, []).append((st, em.pos()))
    em.emit(")")


def _emit_directives(em, dirs):
    for n, args in dirs:
        em.emit(" @" + n)
        _emit_args(em, args)


def _emit_selset(em, selset, doc):
    em.emit("{")
    em.indent += 1
    for sel in selset:
        em.sep()
        st = em.pos()
        if sel.kind == "field":
            if sel.alias:
                em.emit(sel.alias + ": ")
            em.emit(sel.name)
            sel.arg_spans = {}
            _emit_args(em, sel.args, sel.arg_spans)
            _emit_directives(em, sel.directives)
            if sel.selset is not None:
                em.emit(" ")
                _emit_selset(em, sel.selset, doc)
            sel.nid = len(doc.nodes)
            doc.nodes.append(sel)
        elif sel.kind == "inline":
            em.emit("...")
            if sel.typecond:
                em.emit(" on " + sel.typecond)
            _emit_directives(em, sel.directives)
            em.emit(" ")
            _emit_selset(em, sel.selset, doc)
        else:
            em.emit("..." + sel.name)
            _emit_directives(em, sel.directives)
        sel.span = (st, em.pos())
    em.indent -= 1
    em.sep()
    em.emit("}")


def print_doc(doc, rng=None, style=None):
    em = Emitter(rng, style)
    doc.nodes = []
    first = True
    for kind, ref in doc.order:
        if not first:
            em.emit(em.nl if em.style.get("multiline") else " ")
        first = False
        st = em.pos()
        if kind == "op":
            op = doc.ops[ref]
            shorthand = (op.kind == "query" and op.name is None and not op.vardefs and not op.directives
                         and em.style.get("shorthand", True))
            if not shorthand:
                em.emit(op.kind)
                if op.name:
                    em.emit(" " + op.name)
                if op.vardefs:
                    em.emit("(")
                    for i, (n, t, d) in enumerate(op.vardefs):
                        if i:
                            em.emit(", ")
                        vst = em.pos()
                        em.emit("$%s: %s" % (n, tstr(t)))
                        if d is not NODEF:
                            em.emit(" = " + print_value(d))
                        op.vardef_spans[n] = (vst, em.pos())
                    em.emit(")")
                _emit_directives(em, op.directives)
                em.emit(" ")
            _emit_selset(em, op.selset, doc)
            op.span = (st, em.pos())
        else:
            fr = doc.frags[ref]
            em.emit("fragment %s on %s" % (fr.name, fr.typecond))
            _emit_directives(em, fr.directives)
            em.emit(" ")
            _emit_selset(em, fr.selset, doc)
            fr.span = (st, em.pos())
    doc.text = em.text()
    return doc.text


def in_span(span, line, col):
    (sl, sc), (el, ec) = span
    return (sl, sc) <= (line, col) < (el, ec)


# --------------------------------------------------------------------------- generator

class DocOpts:
    def __init__(self, **kw):
        self.max_depth = 4
        self.max_fields = 30
        self.p_alias = 0.25
        self.p_inline = 0.18
        self.p_spread = 0.18
        self.p_repeat = 0.12
        self.p_typename = 0.15
        self.p_skipinclude = 0.15
        self.p_var = 0.4
        self.n_ops = (1, 1)
        self.op_kinds = ("query",)
        self.introspection = 0.0
        self.p_unused_style = 0.0
        self.force_typename = False
        self.p_sub_repeat = 0.15
        self.p_repeat_outer = 0.3
        self.p_hetero = 0.5
        self.p_nested_var = 0.25
        self.anydir = None                # name of a no-op directive legal in every executable location
        self.p_anydir = 0.15
        self.__dict__.update(kw)


ALIASES = ["a", "b", "x", "alias", "on", "query", "type", "fragment", "k1", "k2", "data", "errors", "A",
           "mutation", "subscription", "input", "enum", "true_", "tn"]
FRAG_NAMES = ["F", "Frag", "f1", "query", "mutation", "type", "Fields", "A", "a", "fragment", "subscription",
              "input", "schema", "x"]
OP_NAMES = ["Q", "q", "A", "B", "GetIt", "query", "on", "fragment", "type", "mutation", "Op1", "Op2"]


class DocGen:
    def __init__(self, rng, schema, opts=None):
        self.rng, self.s, self.o = rng, schema, opts or DocOpts()
        self.doc = Doc()
        self.keys = {}        # response key -> signature
        self.vars = {}        # name -> (type, default)
        self.budget = self.o.max_fields
        self.building = set()
        self.frag_vars = {}   # fragment -> set of var names used directly
        self.frag_spreads = {}  # fragment -> set of fragment names spread directly

    # -- type helpers
    def overlapping(self, parent):
        pp = set(self.s.possible_types(parent))
        out = []
        for t in self.s.types.values():
            if t.kind in ("OBJECT", "INTERFACE", "UNION") and pp & set(self.s.possible_types(t.name)):
                out.append(t.name)
        return out

    # -- variables
    def var_for(self, pos_type, pos_has_default, scope):
        rng = self.rng
        cands = []
        for n, (t, d) in self.vars.items():
            if self.var_allowed(t, d, pos_type, pos_has_default):
                cands.append(n)
        if cands and rng.random() < 0.5:
            n = rng.choice(cands)
        else:
            n = "v%d" % len(self.vars)
            r = rng.random()
            t, d = pos_type, NODEF
            if r < 0.2 and not is_nn(pos_type):
                t = NN(pos_type)
            elif r < 0.45 and is_nn(pos_type):
                # nullable variable with a non-null default into a non-null position
                t = nullable(pos_type)
                d = values.plain_to_literal(rng, self.s, pos_type, values._gen_plain_nn(rng, self.s, pos_type, 1))
            elif r < 0.65:
                d = values.gen_literal(rng, self.s, t, None, 1)
            self.vars[n] = (t, d)
        scope["vars"].add(n)
        return ("var", n)

    @staticmethod
    def var_allowed(vt, vdefault, pos_type, pos_has_default):
        """June 2018 AreTypesCompatible / IsVariableUsageAllowed."""
        if is_nn(pos_type) and not is_nn(vt):
            has_nonnull_default = vdefault is not NODEF and vdefault != ("null",)
            if not has_nonnull_default and not pos_has_default:
                return False
            return DocGen.types_compatible(vt, nullable(pos_type))
        return DocGen.types_compatible(vt, pos_type)

    @staticmethod
    def types_compatible(vt, lt):
        if is_nn(lt):
            if not is_nn(vt):
                return False
            return DocGen.types_compatible(vt[1], lt[1])
        if is_nn(vt):
            return DocGen.types_compatible(vt[1], lt)
        if lt[0] == "L":
            if vt[0] != "L":
                return False
            return DocGen.types_compatible(vt[1], lt[1])
        return vt[0] == "N" and vt == lt

    def gen_arg_value(self, a_type, has_default, scope):
        if self.rng.random() < self.o.p_var:
            return self.var_for(a_type, has_default, scope)
        lit = values.gen_literal(self.rng, self.s, a_type, None, 1)
        if self.rng.random() < self.o.p_nested_var:
            lit = self.nest_variable(a_type, lit, scope)
        return lit

    def nest_variable(self, t, lit, scope):
        """Replace one element of a list literal / one field of an object literal by a (correctly typed) variable."""
        rng = self.rng
        tt = t[1] if t[0] == "NN" else t
        if lit[0] == "list" and tt[0] == "L" and lit[1]:
            i = rng.randrange(len(lit[1]))
            items = list(lit[1])
            if rng.random() < 0.6 or items[i][0] not in ("list", "object"):
                items[i] = self.var_for(tt[1], False, scope)
            else:
                items[i] = self.nest_variable(tt[1], items[i], scope)
            return ("list", items)
        td = self.s.types.get(tt[1]) if tt[0] == "N" else None
        if lit[0] == "object" and td is not None and td.kind == "INPUT_OBJECT" and lit[1]:
            i = rng.randrange(len(lit[1]))
            fields = list(lit[1])
            k, v = fields[i]
            f = td.field(k)
            if rng.random() < 0.6 or v[0] not in ("list", "object"):
                fields[i] = (k, self.var_for(f.type, f.default is not NODEF, scope))
            else:
                fields[i] = (k, self.nest_variable(f.type, v, scope))
            return ("object", fields)
        return lit

    def gen_args(self, argdefs, scope):
        out = []
        for a in argdefs:
            required = is_nn(a.type) and a.default is NODEF
            if required or self.rng.random() < 0.6:
                out.append((a.name, self.gen_arg_value(a.type, a.default is not NODEF, scope)))
        self.rng.shuffle(out)
        return out

    def gen_skipinclude(self, scope):
        dirs = []
        if self.o.anydir and self.rng.random() < self.o.p_anydir:
            dirs.append((self.o.anydir, []))
        if self.rng.random() < self.o.p_skipinclude:
            names = self.rng.choice([["skip"], ["include"], ["skip", "include"], ["include", "skip"]])
            for n in names:
                r = self.rng.random()
                if r < 0.5:
                    v = ("bool", self.rng.random() < 0.5)
                else:
                    v = self.var_for(NN(N("Boolean")), False, scope)
                    self.doc.no_null_vars.add(v[1])
                dirs.append((n, [("if", v)]))
        return dirs

    # -- selections
    def gen_field(self, parent, depth, scope, force=None, no_directives=False):
        rng = self.rng
        fields = self.s.fields_of(parent)
        names = list(fields)
        if force is not None:
            fname = force
        elif not names or rng.random() < self.o.p_typename:
            fname = "__typename"
        else:
            fname = rng.choice(names)
        self.budget -= 1
        if fname == "__typename":
            sel = FieldSel("__typename")
            sig = ("__typename", "", "String!")
            sel.directives = [] if no_directives else self.gen_skipinclude(scope)
        else:
            f = fields[fname]
            sel = FieldSel(fname, args=self.gen_args(f.args, scope))
            sel.directives = [] if no_directives else self.gen_skipinclude(scope)
            sig = (fname, ",".join(sorted("%s:%s" % (n, print_value(v)) for n, v in sel.args)), tstr(f.type))
            tn = named_of(f.type)
            if self.s.is_composite(tn):
                sel.selset = self.gen_selset(tn, depth + 1, scope)
                if "L" in str(f.type) and self.s.kind(tn) == "INTERFACE" and rng.random() < self.o.p_hetero and depth + 1 < self.o.max_depth:
                    self._hetero_merge(sel.selset, tn, depth + 1, scope)
        key = fname
        if rng.random() < self.o.p_alias:
            key = rng.choice(ALIASES)
        n = 0
        base = key
        while key in self.keys and self.keys[key] != sig:
            n += 1
            key = "%s_%d" % (base, n)
        self.keys[key] = sig
        if key != fname:
            sel.alias = key
        return sel

    def clone_field(self, sel, parent, depth, scope, no_directives=False):
        """Re-select the same field (same key, same args) with a fresh sub-selection."""
        c = FieldSel(sel.name, sel.alias, list(sel.args), [] if no_directives else self.gen_skipinclude(scope))
        for _, v in sel.args:
            self._note_vars(v, scope)
        if sel.selset is not None:
            f = self.s.fields_of(parent)[sel.name]
            c.selset = self.gen_selset(named_of(f.type), depth + 1, scope)
        self.budget -= 1
        return c

    def _note_vars(self, v, scope):
        if v[0] == "var":
            scope["vars"].add(v[1])
        elif v[0] == "list":
            for x in v[1]:
                self._note_vars(x, scope)
        elif v[0] == "object":
            for _, x in v[1]:
                self._note_vars(x, scope)

    def gen_selset(self, parent, depth, scope, outer=()):
        """outer: field selections of the enclosing selection set(s) that an inline / named fragment body may
        select AGAIN (same response key, same arguments) so that sub-selections merge across type conditions."""
        rng, o = self.rng, self.o
        out = []
        n = rng.randint(1, 4) if depth < o.max_depth else rng.randint(1, 2)
        leafy = depth >= o.max_depth or self.budget <= 0
        if outer and not leafy and rng.random() < o.p_repeat_outer:
            rep = self._repeatable(outer, parent)
            if rep:
                out.append(self.clone_field(rng.choice(rep), parent, depth, scope))
        for _ in range(n):
            r = rng.random()
            if leafy:
                fields = self.s.fields_of(parent)
                leafs = [f for f in fields.values() if self.s.is_leaf(named_of(f.type))]
                out.append(self.gen_field(parent, depth, scope,
                                          force=rng.choice(leafs).name if leafs and rng.random() < 0.8 else "__typename"))
                continue
            if r < o.p_inline:
                tc = rng.choice(self.overlapping(parent) + [None])
                inner = tc or parent
                out.append(InlineFrag(tc, self.gen_skipinclude(scope), self.gen_selset(
                    inner, depth + 1, scope, outer=[x for x in out if x.kind == "field"] + list(outer))))
            elif r < o.p_inline + o.p_spread:
                out.append(self.gen_spread(parent, depth, scope))
            elif r < o.p_inline + o.p_spread + o.p_repeat and any(x.kind == "field" for x in out):
                prev = rng.choice([x for x in out if x.kind == "field"])
                if prev.name == "__typename":
                    out.append(FieldSel("__typename", prev.alias))
                else:
                    out.append(self.clone_field(prev, parent, depth, scope))
            elif outer and rng.random() < o.p_repeat_outer and self._repeatable(outer, parent):
                prev = rng.choice(self._repeatable(outer, parent))
                out.append(self.clone_field(prev, parent, depth, scope))
            else:
                out.append(self.gen_field(parent, depth, scope))
        if not leafy:
            # ... and the other way round: a field first selected under a type condition is selected again outside it
            for x in list(out):
                if x.kind == "inline" and x.typecond and rng.random() < o.p_repeat_outer:
                    rep = self._repeatable([y for y in x.selset if y.kind == "field"], parent)
                    if rep:
                        out.append(self.clone_field(rng.choice(rep), parent, depth, scope))
        if o.force_typename and not any(x.kind == "field" and x.name == "__typename" and not x.alias
                                        and not x.directives for x in out):
            self.keys["__typename"] = ("__typename", "", "String!")
            out.insert(rng.randrange(len(out) + 1), FieldSel("__typename"))
        return out

    def _hetero_merge(self, selset, iface, depth, scope):
        """List of interface values: select a composite field for every item AND again under a type condition that
        only some items satisfy, so that the merged field nodes differ from item to item."""
        rng = self.rng
        impls = sorted(self.s.possible_types(iface))
        comp = [g for g in self.s.types[iface].fields.values() if self.s.is_composite(named_of(g.type))]
        if len(impls) < 2 or not comp:
            return
        g = rng.choice(comp)
        outer = self.gen_field(iface, depth, scope, force=g.name, no_directives=True)
        impl = rng.choice(impls)
        if not self._repeatable([outer], impl):
            selset.append(outer)     # keep it: fragments created while generating it must stay used
            return
        inner = self.clone_field(outer, impl, depth + 1, scope, no_directives=True)
        parts = [outer, InlineFrag(impl, [], [inner])]
        rng.shuffle(parts)
        selset.extend(parts)
        self.doc.hetero = getattr(self.doc, "hetero", 0) + 1      # merged field nodes now differ from list item to list item

    def _repeatable(self, outer, parent):
        """Outer field selections that mean the very same field (name, arguments, type) on `parent`."""
        fields = self.s.fields_of(parent)
        ok = []
        for x in outer:
            f = fields.get(x.name)
            if f is None or x.name.startswith("__"):
                continue
            sig = (x.name, ",".join(sorted("%s:%s" % (n, print_value(v)) for n, v in x.args)), tstr(f.type))
            if self.keys.get(x.key) == sig and all(f.arg(n) is not None for n, _ in x.args) \
                    and not any(is_nn(a.type) and a.default is NODEF and a.name not in dict(x.args) for a in f.args):
                ok.append(x)
        return ok

    def gen_spread(self, parent, depth, scope):
        rng = self.rng
        ov = set(self.overlapping(parent))
        done = [f for f in self.doc.frags.values() if f.typecond in ov and f.name not in self.building]
        if done and rng.random() < 0.5:
            fr = rng.choice(done)
        else:
            used = set(self.doc.frags) | self.building
            cands = [x for x in FRAG_NAMES if x not in used and x != "on"]
            name = rng.choice(cands) if cands else "Fr%d" % len(used)
            tc = rng.choice(sorted(ov))
            self.building.add(name)
            fscope = {"vars": set(), "spreads": set()}
            selset = self.gen_selset(tc, depth + 1, fscope)
            fr = FragDef(name, tc, selset, [(self.o.anydir, [])] if self.o.anydir and rng.random() < self.o.p_anydir else None)
            self.building.discard(name)
            self.doc.frags[name] = fr
            self.frag_vars[name] = fscope["vars"]
            self.frag_spreads[name] = fscope["spreads"]
        scope["spreads"].add(fr.name)
        return Spread(fr.name, self.gen_skipinclude(scope))

    def closure(self, spreads):
        seen, todo = set(), list(spreads)
        while todo:
            n = todo.pop()
            if n in seen:
                continue
            seen.add(n)
            todo.extend(self.frag_spreads.get(n, ()))
        return seen

    def gen_doc(self):
        rng, o = self.rng, self.o
        n_ops = rng.randint(*o.n_ops)
        names = rng.sample(OP_NAMES, n_ops)
        roots = self.s.roots()
        kinds = [k for k in o.op_kinds if k in roots]
        scopes = []
        for i in range(n_ops):
            kind = rng.choice(kinds)
            scope = {"vars": set(), "spreads": set()}
            self.budget = o.max_fields
            if kind == "subscription":
                # exactly one response key at the root (possibly selected twice, or through fragments)
                f0 = self.gen_field(roots[kind], 1, scope, force=rng.choice(list(self.s.fields_of(roots[kind]))),
                                    no_directives=True)
                selset = [f0]
                r = rng.random()
                if r < o.p_sub_repeat:
                    selset.append(self.clone_field(f0, roots[kind], 1, scope, no_directives=True))
                elif r < o.p_sub_repeat + 0.15:
                    selset = [InlineFrag(rng.choice([None, roots[kind]]), [], selset)]
                elif r < o.p_sub_repeat + 0.3:
                    # the single root field comes through a named fragment
                    used = set(self.doc.frags) | self.building
                    cands = [x for x in FRAG_NAMES if x not in used and x != "on"]
                    fname = rng.choice(cands) if cands else "SubFr%d" % len(used)
                    self.doc.frags[fname] = FragDef(fname, roots[kind], selset)
                    self.frag_vars[fname] = set(scope["vars"])
                    self.frag_spreads[fname] = set(scope["spreads"])
                    scope["spreads"].add(fname)
                    selset = [Spread(fname)]
            else:
                selset = self.gen_selset(roots[kind], 1, scope)
            if kind == "query" and rng.random() < o.introspection:
                selset.insert(rng.randrange(len(selset) + 1), self.gen_introspection())
            name = names[i] if (n_ops > 1 or rng.random() < 0.5) else None
            self.doc.ops.append(Op(kind, name, selset))
            if o.anydir and rng.random() < o.p_anydir:
                self.doc.ops[-1].directives = [(o.anydir, [])]
            scopes.append(scope)
        # every fragment must be used: ones only created inside discarded paths cannot exist,
        # since fragments are created only when spread.
        for op, scope in zip(self.doc.ops, scopes):
            used = set(scope["vars"])
            for fn in self.closure(scope["spreads"]):
                used |= self.frag_vars.get(fn, set())
            vd = [(n, self.vars[n][0], self.vars[n][1]) for n in sorted(used)]
            rng.shuffle(vd)
            op.vardefs = vd
        order = [("op", i) for i in range(len(self.doc.ops))] + [("frag", n) for n in self.doc.frags]
        rng.shuffle(order)
        self.doc.order = order
        return self.doc

    def gen_introspection(self):
        r = self.rng.random()
        if r < 0.5:
            sel = FieldSel("__schema", selset=[FieldSel("queryType", selset=[FieldSel("name")])])
        else:
            tn = self.rng.choice(list(self.s.types) + ["NoSuchType"])
            sel = FieldSel("__type", args=[("name", ("string", tn))],
                           selset=[FieldSel("name"), FieldSel("kind")])
        key = self.rng.choice(["__schema", "intro", "meta"]) if sel.name == "__schema" else "t_" + str(len(self.keys))
        if key in self.keys:
            key = "%s_%d" % (key, len(self.keys))
        self.keys[key] = ("intro", key)
        if key != sel.name:
            sel.alias = key
        return sel


def gen_variables(rng, s, op, no_null=()):
    """A valid variables dict for the operation."""
    out = {}
    for n, t, d in op.vardefs:
        required = is_nn(t) and d is NODEF
        if required or rng.random() < 0.7:
            out[n] = values.gen_plain(rng, s, t, 0)
            if out[n] is None and n in no_null:
                out[n] = values._gen_plain_nn(rng, s, t, 0)
    if rng.random() < 0.1:
        out["undeclared_extra"] = rng.choice([1, "x", None, {"a": 1}])
    return out


def random_style(rng):
    return {"multiline": rng.random() < 0.4, "nl": rng.choice(["\n", "\n", "\r\n", "\r"]),
            "shorthand": rng.random() < 0.7}
