"""Adversarial resolver-value universe (C03, C10) and the structural conformance checker."""
import datetime
import decimal
import enum
import fractions
import json
import math

from vt import values
from vt.smodel import BUILTIN_SCALARS


class Attrs:
    def __init__(self, **kw):
        self.__dict__.update(kw)


class StrRaises:
    def __str__(self):
        raise RuntimeError("__str__ raises")

    def __repr__(self):
        return "<StrRaises>"


class BoolRaises:
    def __bool__(self):
        raise RuntimeError("__bool__ raises")

    def __repr__(self):
        return "<BoolRaises>"


class EqRaises:
    def __eq__(self, o):
        raise RuntimeError("__eq__ raises")

    __hash__ = None

    def __repr__(self):
        return "<EqRaises>"


class FloatRaises:
    def __float__(self):
        raise RuntimeError("__float__ raises")

    def __repr__(self):
        return "<FloatRaises>"


class IntLike:
    def __int__(self):
        return 7

    def __index__(self):
        return 7

    def __repr__(self):
        return "<IntLike 7>"


class MyInt(int):
    pass


class MyStr(str):
    pass


class MyFloat(float):
    pass


class Color(enum.Enum):
    RED = "RED"


class IntE(enum.IntEnum):
    ONE = 1


async def _coro():
    return 1


def _closed_coro():
    c = _coro()
    c.close()
    return c


def _selfref_list():
    x = [1]
    x.append(x)
    return x


def _selfref_dict():
    d = {"a": 1}
    d["self"] = d
    return d


def _deep(n):
    x = []
    for _ in range(n):
        x = [x]
    return x


class PrintsAs:
    """An object that is not a string but whose str() is a given text (e.g. a declared enum value name)."""

    def __init__(self, text):
        self.text = text

    def __str__(self):
        return self.text

    def __repr__(self):
        return "PrintsAs(%r)" % self.text


class UnprintableError(Exception):
    def __str__(self):
        raise RuntimeError("this exception cannot be printed")


def _odd_message():
    e = ValueError("text")
    e.message = {"not": "a string"}
    return e


def _multiple(*excs):
    from tartiflette.types.exceptions.tartiflette import MultipleException
    return MultipleException(list(excs))


FACTORIES = [
    lambda: None, lambda: True, lambda: False,
    lambda: 0, lambda: 1, lambda: -1, lambda: 2 ** 31 - 1, lambda: 2 ** 31, lambda: -2 ** 31, lambda: -2 ** 31 - 1,
    lambda: 2 ** 53, lambda: 2 ** 53 + 1, lambda: 10 ** 400, lambda: -10 ** 400,
    lambda: 0.0, lambda: -0.0, lambda: 5e-324, lambda: 1.0, lambda: 1.5, lambda: -2.5, lambda: 3.0, lambda: 2147483648.0,
    lambda: float("nan"), lambda: float("inf"), lambda: float("-inf"), lambda: 1e308, lambda: 1e-308,
    lambda: "", lambda: " ", lambda: "0", lambda: "1", lambda: "-1", lambda: "1.0", lambda: "1.5", lambda: "1e3", lambda: "abc",
    lambda: "true", lambda: "false", lambda: "NaN", lambda: "nan", lambda: "inf", lambda: "-inf", lambda: "Infinity",
    lambda: "٣", lambda: "１", lambda: "1_000", lambda: " 12 ", lambda: "0x10", lambda: "2147483648", lambda: "1e999",
    lambda: "x" * 10000, lambda: "\x00", lambda: "\ud800", lambda: "é😀",
    lambda: b"bytes", lambda: bytearray(b"ba"), lambda: (1, 2), lambda: (), lambda: {1, 2}, lambda: frozenset([1]),
    lambda: (i for i in range(2)), lambda: range(3), lambda: {}.keys(), lambda: {"a": 1}.values(), lambda: iter([1]),
    lambda: [], lambda: [1, "a", None], lambda: {}, lambda: {"a": {"b": [1]}}, lambda: {"_typename": "Nope"},
    lambda: decimal.Decimal("3"), lambda: decimal.Decimal("3.5"), lambda: decimal.Decimal("NaN"), lambda: decimal.Decimal("Infinity"),
    lambda: fractions.Fraction(1, 2), lambda: fractions.Fraction(4, 2), lambda: complex(1, 0),
    lambda: datetime.datetime(2020, 1, 2, 3, 4, 5), lambda: datetime.date(2020, 1, 2), lambda: datetime.timedelta(1),
    lambda: object(), lambda: Attrs(a=1, name="n", id=3), lambda: Attrs(_typename="Nope"),
    lambda: StrRaises(), lambda: BoolRaises(), lambda: EqRaises(), lambda: FloatRaises(), lambda: IntLike(),
    lambda: MyInt(5), lambda: MyStr("s"), lambda: MyFloat(1.5), lambda: MyFloat("nan"), lambda: Color.RED, lambda: IntE.ONE,
    lambda: ValueError("an exception instance"), lambda: KeyError("k"), lambda: ValueError, lambda: Exception,
    lambda: (lambda: 1), lambda: len, lambda: int, lambda: _closed_coro(), lambda: math,
    lambda: _selfref_list(), lambda: _selfref_dict(), lambda: _deep(60), lambda: NotImplemented, lambda: Ellipsis,
    lambda: memoryview(b"mv"),
    # exceptions that are awkward to report: unprintable, oversized (3.12 int->str limit), the library's own container
    lambda: UnprintableError(), lambda: ValueError(10 ** 5000), lambda: _odd_message(), lambda: _multiple(), lambda: _multiple(ValueError("inner"), KeyError("k")),
    lambda: decimal.Decimal("1e999"), lambda: decimal.Decimal("-1e999"), lambda: fractions.Fraction(10 ** 400, 3),
]


def garbage(rng):
    return rng.choice(FACTORIES)()


def describe(v):
    try:
        r = repr(v)
    except Exception:  # noqa
        r = "<unrepr>"
    return "%s:%s" % (type(v).__name__, r[:60])


# --------------------------------------------------------------------------- conformance checker

def leaf_conforms(s, name, v):
    """None if v is an acceptable wire value for leaf type `name`, else a reason."""
    if name == "Int":
        if isinstance(v, bool) or not isinstance(v, int):
            return "Int must be an integer, got %s" % describe(v)
        if not values.INT_MIN <= v <= values.INT_MAX:
            return "Int outside signed 32 bits: %s" % v
        return None
    if name == "Float":
        if isinstance(v, bool) or not isinstance(v, (int, float)):
            return "Float must be a number, got %s" % describe(v)
        if not math.isfinite(v):
            return "Float must be finite, got %r" % v
        return None
    if name in ("String", "ID"):
        return None if isinstance(v, str) else "%s must be a string, got %s" % (name, describe(v))
    if name == "Boolean":
        return None if isinstance(v, bool) else "Boolean must be a bool, got %s" % describe(v)
    td = s.types[name]
    if td.kind == "ENUM":
        return None if isinstance(v, str) and v in td.values else "enum %s value %s not declared" % (name, describe(v))
    if td.impl == "tag":
        return None if isinstance(v, str) and v.startswith("out(") else "Tag wire value %s" % describe(v)
    return None if isinstance(v, int) and not isinstance(v, bool) and v % 2 == 0 else "Even wire value %s" % describe(v)


class Conformance:
    """Walks `data` against the document and the schema model.  Every composite selection
    must select __typename (unaliased, unconditioned) so the concrete type is known."""

    def __init__(self, s, refexec_cls, world, doc, op, variables):
        self.s = s
        self.rx = refexec_cls(world, doc, op, variables)
        self.problems = []

    def bad(self, path, why):
        if len(self.problems) < 5:
            self.problems.append("%s: %s" % (list(path), why))

    def check_root(self, data, root_type):
        if data is None:
            return self.problems
        self.selset(data, root_type, [self.rx.op.selset], (), root=True)
        return self.problems

    def selset(self, data, declared, selsets, path, root=False):
        if type(data) is not dict:
            return self.bad(path, "composite value must be a dict, got %s" % describe(data))
        kind = self.s.kind(declared)
        if root:
            concrete = declared
        else:
            tn = data.get("__typename")
            if not isinstance(tn, str):
                return self.bad(path, "__typename missing or not a string: %s" % describe(tn))
            if tn not in self.s.types or self.s.types[tn].kind != "OBJECT":
                return self.bad(path, "__typename %r is not an object type" % tn)
            if tn not in self.s.possible_types(declared):
                return self.bad(path, "%s is not a possible type of %s" % (tn, declared))
            concrete = tn
        grouped, visited = {}, set()
        for ss in selsets:
            self.rx.collect(concrete, ss, grouped, visited)
        if list(data) != list(grouped):
            return self.bad(path, "response keys %s differ from collected keys %s" % (list(data), list(grouped)))
        for key, nodes in grouped.items():
            fname = nodes[0].name
            v = data[key]
            p = path + (key,)
            if fname == "__typename":
                if v != concrete:
                    self.bad(p, "__typename %r != %r" % (v, concrete))
                continue
            if fname in ("__schema", "__type"):
                continue
            f = self.s.types[concrete].fields[fname]
            self.value(v, f.type, nodes, p)

    def value(self, v, t, nodes, path):
        if t[0] == "NN":
            if v is None:
                return self.bad(path, "null at non-null position %s" % (t,))
            return self.value(v, t[1], nodes, path)
        if v is None:
            return
        if t[0] == "L":
            if type(v) is not list:
                return self.bad(path, "list expected, got %s" % describe(v))
            for i, x in enumerate(v):
                self.value(x, t[1], nodes, path + (i,))
            return
        name = t[1]
        if self.s.is_leaf(name):
            why = leaf_conforms(self.s, name, v)
            if why:
                self.bad(path, why)
            return
        self.selset(v, name, [n.selset for n in nodes if n.selset is not None], path)
