"""Supervisor / worker for all checks.

    ./check C01 --tier quick            supervisor: shards the case stream over subprocesses
    ./check C01 --replay replays/C01/x.json
    python -m vt.run --worker ...       (internal)

Verdicts: exit 0 held on what was observed (KNOWN-FINDING lines allowed), exit 1 with
`VIOLATION property=.. replay=..`, exit 2 with `INCONCLUSIVE property=.. reason=..`.
"""
import asyncio
import hashlib
import importlib
import json
import os
import random
import subprocess
import sys
import time
import traceback

VERIF = os.path.dirname(os.path.dirname(os.path.abspath(__file__)))
PY = os.environ.get("VERIF_PYTHON", "/venv/bin/python")
if not os.path.exists(PY):
    PY = sys.executable


def h64(x):
    return int.from_bytes(hashlib.blake2b(repr(x).encode("utf-8", "replace"), digest_size=8).digest(), "big")


class Stats:
    MAX_DISTINCT = 400000

    def __init__(self):
        self.counters = {}
        self.sets = {}
        self.samples = []
        self.violations = []
        self.notes = []

    def inc(self, name, n=1):
        self.counters[name] = self.counters.get(name, 0) + n

    def distinct(self, name, key):
        s = self.sets.setdefault(name, set())
        if len(s) < self.MAX_DISTINCT:
            s.add(h64(key))

    def sample(self, obj, limit=3):
        if len(self.samples) < limit:
            self.samples.append(obj)

    def violation(self, kind, detail, case=None, mechanism=None):
        self.violations.append({"kind": kind, "detail": detail, "case": case, "mechanism": mechanism})

    def dump(self):
        return {"counters": self.counters, "sets": {k: sorted(v) for k, v in self.sets.items()},
                "samples": self.samples, "violations": self.violations, "notes": self.notes}


class HarnessError(Exception):
    """An exception that never passed through the code under test: a defect of this machinery, never a violation."""


def engine_frames(e):
    """Number of traceback frames (cause/context chain included) that lie inside the tartiflette package under test."""
    root = os.path.join(os.path.realpath(os.environ.get("VERIF_REPO", "/repo")), "tartiflette") + os.sep
    n, seen = 0, set()
    while e is not None and id(e) not in seen:
        seen.add(id(e))
        for fs in traceback.extract_tb(e.__traceback__):
            if os.path.realpath(fs.filename).startswith(root):
                n += 1
        e = e.__cause__ or e.__context__
    return n


class Ctx:
    def __init__(self, prop, tier, seed, stats, replay=False):
        self.prop, self.tier, self.seed, self.stats, self.replay = prop, tier, seed, stats, replay
        self.index = None
        self.verbose = replay

    def violation(self, kind, detail, case=None, mechanism=None, exc=None):
        # called from an `except` block (or with exc=): an exception whose traceback never enters the package under test
        # was raised by this machinery itself -> harness error (inconclusive), not a verdict about the engine
        e = sys.exc_info()[1] if exc is None else exc     # exc=False: the exception being handled is itself the observation
        if isinstance(e, Exception) and e.__traceback__ is not None and not getattr(e, "engine_verdict", False) \
                and engine_frames(e) == 0:
            raise HarnessError("%s: %s" % (kind, detail)) from e
        self.stats.violation(kind, detail, dict(case or {}, index=self.index, seed=self.seed, tier=self.tier), mechanism)
        if self.verbose:
            print("  !! %s: %s" % (kind, detail))

    def log(self, *a):
        if self.verbose:
            print(*a)


def case_rng(pid, seed, index):
    return random.Random("%s|%s|%s" % (pid, seed, index))


# ------------------------------------------------------------------------- reach counters

# entry points of the public API: the "was the engine reached at all" guard must not rest on private helper names alone
PUBLIC_ANCHORS = ["tartiflette.engine:Engine.cook", "tartiflette.engine:Engine.execute", "tartiflette.engine:Engine.subscribe"]


class Reach:
    """sys.monitoring PY_START counters on the anchor functions (function granularity)."""

    def __init__(self, anchors):
        self.counts = {}
        self.missing = []
        self.codes = {}
        self._keep = []
        self.tool = None
        mon = getattr(sys, "monitoring", None)
        if mon is None:
            return
        for a in anchors:
            code = self._resolve(a)
            if code is None:
                self.missing.append(a)
            else:
                self.codes[id(code)] = a      # code objects compare by value: identical copy-pasted functions collide
                self._keep.append(code)
                self.counts[a] = 0
        try:
            self.tool = 3
            mon.use_tool_id(self.tool, "vt-reach")
            mon.register_callback(self.tool, mon.events.PY_START, self._cb)
            for code in self._keep:
                mon.set_local_events(self.tool, code, mon.events.PY_START)
        except Exception:  # noqa
            self.tool = None

    @staticmethod
    def _resolve(a):
        modname, _, qual = a.partition(":")
        try:
            obj = importlib.import_module(modname)
            for part in qual.split("."):
                obj = getattr(obj, part)
            obj = getattr(obj, "__wrapped__", obj)
            obj = getattr(obj, "__func__", obj)
            want = qual.split(".")[-1]
            for _ in range(4):  # look through decorator closures for the function of that name
                if obj.__code__.co_name == want or not obj.__closure__:
                    break
                for cell in obj.__closure__:
                    c = cell.cell_contents
                    if callable(c) and hasattr(c, "__code__"):
                        obj = c
                        break
                else:
                    break
            return obj.__code__
        except Exception:  # noqa
            return None

    def _cb(self, code, offset):
        a = self.codes.get(id(code))
        if a is not None:
            self.counts[a] += 1

    def stop(self):
        mon = getattr(sys, "monitoring", None)
        if mon is not None and self.tool is not None:
            try:
                mon.free_tool_id(self.tool)
            except Exception:  # noqa
                pass


# ------------------------------------------------------------------------- worker

def load_prop(pid):
    return importlib.import_module("vt.props." + pid.lower())


def worker(pid, tier, seed, shard, nshards, n, out):
    t0 = time.time()
    try:
        # a runaway case (an engine change that makes a response explode) must end as a MemoryError in ONE worker - a
        # harness error, i.e. inconclusive - not take the machine down
        import resource
        lim = int(os.environ.get("VERIF_WORKER_MEM_GB", "6")) << 30
        resource.setrlimit(resource.RLIMIT_AS, (lim, lim))
    except Exception:  # noqa
        pass
    from vt import boot
    parser_kind = boot.init()
    prop = load_prop(pid)
    stats = Stats()
    ctx = Ctx(prop, tier, seed, stats)
    reach = Reach(list(getattr(prop, "ANCHORS", [])) + [a for a in PUBLIC_ANCHORS if a not in getattr(prop, "ANCHORS", [])])
    harness_errors = []

    async def loop():
        if shard == 0 and hasattr(prop, "run_probes"):
            ctx.index = -1
            await prop.run_probes(ctx)
        for index in range(shard, n, nshards):
            ctx.index = index
            try:
                await prop.run_case(ctx, case_rng(pid, seed, index), index)
                stats.inc("cases")
            except Exception:  # noqa  harness problem -> inconclusive, never a violation
                harness_errors.append({"index": index, "trace": traceback.format_exc()[-3000:]})
                if len(harness_errors) > 5:
                    break
    asyncio.run(loop())
    reach.stop()
    hm = sys.modules.get("vt.harness")
    for hook, k in (getattr(hm, "PASS_CALLS", None) or {}).items():
        stats.inc("schema_passthrough_directive:" + hook, k)
    d = stats.dump()
    d.update(reach=reach.counts, reach_missing=reach.missing, harness_errors=harness_errors,
             parser=parser_kind, wall=time.time() - t0)
    with open(out + ".tmp", "w") as f:
        json.dump(d, f)
    os.replace(out + ".tmp", out)


# ------------------------------------------------------------------------- supervisor

def load_known():
    p = os.path.join(VERIF, "known_findings.json")
    if not os.path.exists(p):
        return []
    with open(p) as f:
        return json.load(f).get("findings", [])


def supervise(pid, tier, seed):
    t0 = time.time()
    sys.path.insert(0, VERIF)
    from vt import boot
    boot.init()  # also builds the parser shim once, before the workers race for it
    prop = load_prop(pid)
    consts = {k: getattr(prop, k) for k in ("N_CASES", "LEVEL", "RULE", "WATCHDOG", "MIN_NONTRIVIAL",
                                             "ASSUMPTIONS", "MAX_SHARDS") if hasattr(prop, k)}
    scale = float(os.environ.get("VERIF_SCALE", "1"))
    n = max(1, int(consts["N_CASES"][tier] * scale))
    ncpu = int(os.environ.get("VERIF_JOBS", os.cpu_count() or 4))
    nshards = max(1, min(ncpu, consts.get("MAX_SHARDS", 16), n))
    rundir = os.path.join(os.environ.get("VERIF_BUILD", os.path.join(VERIF, "build")), "run", "%s_%d" % (pid, os.getpid()))
    os.makedirs(rundir, exist_ok=True)
    env = dict(os.environ, PYTHONHASHSEED="0", PYTHONDONTWRITEBYTECODE="1", PYTHONPATH=VERIF)
    procs = []
    for k in range(nshards):
        out = os.path.join(rundir, "shard_%d.json" % k)
        log = open(os.path.join(rundir, "shard_%d.log" % k), "w")
        p = subprocess.Popen([PY, "-m", "vt.run", "--worker", pid, tier, str(seed), str(k), str(nshards), str(n), out],
                             cwd=VERIF, env=env, stdout=log, stderr=subprocess.STDOUT)
        procs.append((p, out, log))
        if k == 0:
            time.sleep(0.05)
    watchdog = consts.get("WATCHDOG", {"quick": 900, "thorough": 7200})[tier]
    deadline = t0 + watchdog
    inconclusive = []
    shards = []
    for k, (p, out, log) in enumerate(procs):
        try:
            p.wait(timeout=max(1, deadline - time.time()))
        except subprocess.TimeoutExpired:
            p.kill()
            inconclusive.append("shard %d hit the wall-clock watchdog (%ds)" % (k, watchdog))
            continue
        finally:
            log.close()
        if p.returncode != 0 or not os.path.exists(out):
            tail = open(os.path.join(rundir, "shard_%d.log" % k)).read()[-1500:]
            inconclusive.append("shard %d exited %s: %s" % (k, p.returncode, tail))
            continue
        with open(out) as f:
            shards.append(json.load(f))
    # merge
    counters, sets, samples, violations, reach, missing, herrs = {}, {}, [], [], {}, set(), []
    parser = None
    for d in shards:
        for k, v in d["counters"].items():
            counters[k] = counters.get(k, 0) + v
        for k, v in d["sets"].items():
            sets.setdefault(k, set()).update(v)
        for s in d["samples"]:
            if len(samples) < 4:
                samples.append(s)
        violations.extend(d["violations"])
        for k, v in d["reach"].items():
            reach[k] = reach.get(k, 0) + v
        missing.update(d["reach_missing"])
        herrs.extend(d["harness_errors"])
        parser = d["parser"]
    for he in herrs[:3]:
        inconclusive.append("harness error in case %s: %s" % (he["index"], he["trace"][-800:]))
    zero = [a for a, c in reach.items() if c == 0]
    if shards and reach and len(zero) == len(reach):
        # nothing of the code the property is anchored in was entered: the workload did not reach the engine.  Single
        # anchors that exist but were not entered (a helper the engine no longer calls) are listed in the evidence
        # ("reach_unentered_anchors") and do not decide: they are implementation structure, not the property
        inconclusive.append("none of the anchored functions was entered: " + ", ".join(zero))
    distinct = {k: len(v) for k, v in sets.items()}
    if shards and hasattr(prop, "post_check"):
        inconclusive.extend(prop.post_check(counters, distinct))
    nontrivial = distinct.get("nontrivial", 0)
    if shards and nontrivial < consts.get("MIN_NONTRIVIAL", 2):
        inconclusive.append("only %d distinct non-trivial cases" % nontrivial)

    # classify violations against the committed known findings
    known = {(k["property"], k["mechanism"]): k for k in load_known()}
    kf_seen, real = {}, []
    for v in violations:
        m = v.get("mechanism")
        if m and (pid, m) in known:
            kf_seen.setdefault(m, v)
        else:
            real.append(v)
    replays = []
    outroot = os.environ.get("VERIF_OUT", VERIF)
    rdir = os.path.join(outroot, "replays", pid)
    if os.path.isdir(rdir):
        for fn in os.listdir(rdir):
            os.unlink(os.path.join(rdir, fn))
    for i, v in enumerate(real[:40]):
        os.makedirs(rdir, exist_ok=True)
        path = os.path.join(rdir, "%s-s%s-i%s-%d.json" % (v["kind"], seed, (v.get("case") or {}).get("index"), i))
        with open(path, "w") as f:
            json.dump(dict(v, property=pid, tier=tier, seed=seed), f, indent=1, default=str)
        replays.append(path)
    stale = [m for (p_, m) in known if p_ == pid and m not in kf_seen]

    coverage = {
        "evaluations": int(counters.get("evaluations", counters.get("cases", 0))),
        "distinct_nontrivial": int(nontrivial),
        "rule": consts.get("RULE", ""),
        "samples": samples or ["(none)"],
        "cases": counters.get("cases", 0),
        "counters": counters,
        "distinct": distinct,
        "reach": reach,
        "reach_missing_anchors": sorted(missing),
        "reach_unentered_anchors": sorted(zero),
        "known_findings_observed": sorted(kf_seen),
        "stale_findings": stale,
        "trusted_base": ["parser drop-in: " + str(parser), "vt reference models", "CPython %s" % sys.version.split()[0]],
        "shards": len(shards),
        "repo": os.environ.get("VERIF_REPO", "/repo"),
    }
    vk = {}
    for v in real:
        k = "%s | %s" % (v["kind"], str(v["detail"]).split(":")[0][:90])
        vk[k] = vk.get(k, 0) + 1
    coverage["violation_summary"] = dict(sorted(vk.items(), key=lambda kv: -kv[1])[:60])
    ev = {"property_id": pid, "tier": tier, "seed": seed, "level": consts["LEVEL"], "coverage": coverage,
          "assumptions": consts.get("ASSUMPTIONS", []), "wall_s": round(time.time() - t0, 2),
          "violations": len(real), "verdict": "violated" if real else ("inconclusive" if inconclusive else "held")}
    os.makedirs(os.path.join(outroot, "evidence"), exist_ok=True)
    with open(os.path.join(outroot, "evidence", pid + ".json"), "w") as f:
        json.dump(ev, f, indent=1, default=str)
    # clean run dir
    for fn in os.listdir(rundir):
        os.unlink(os.path.join(rundir, fn))
    os.rmdir(rundir)

    print("%s tier=%s seed=%s cases=%s evaluations=%s nontrivial=%s wall=%.1fs parser=%s" % (
        pid, tier, seed, counters.get("cases", 0), coverage["evaluations"], nontrivial, time.time() - t0, parser))
    for m, v in sorted(kf_seen.items()):
        print("KNOWN-FINDING: property=%s %s: %s" % (pid, m, known[(pid, m)].get("description", "")))
    for m in stale:
        print("NOTE: listed finding %s of %s was not observed in this run (repaired, or not reached)" % (m, pid))
    if real:
        for path, v in zip(replays, real):
            print("VIOLATION property=%s replay=%s" % (pid, path))
            print("   %s: %s" % (v["kind"], str(v["detail"])[:300]))
        if len(real) > len(replays):
            print("   (+%d more violations)" % (len(real) - len(replays)))
        return 1
    if inconclusive:
        for r in inconclusive:
            print("INCONCLUSIVE property=%s reason=%s" % (pid, r.replace("\n", " | ")[:1200]))
        return 2
    return 0


def replay(pid, path):
    with open(path) as f:
        v = json.load(f)
    case = v.get("case") or {}
    from vt import boot
    boot.init()
    prop = load_prop(pid)
    stats = Stats()
    ctx = Ctx(prop, v.get("tier", "quick"), v.get("seed", 0), stats, replay=True)
    ctx.index = case.get("index")
    print("replaying %s index=%s seed=%s tier=%s" % (pid, ctx.index, ctx.seed, ctx.tier))
    print("recorded: %s: %s" % (v.get("kind"), v.get("detail")))

    async def go():
        if ctx.index == -1:
            await prop.run_probes(ctx)
        else:
            await prop.run_case(ctx, case_rng(pid, ctx.seed, ctx.index), ctx.index)
    asyncio.run(go())
    known = {(k["property"], k["mechanism"]) for k in load_known()}
    real = [x for x in stats.violations if not (x.get("mechanism") and (pid, x["mechanism"]) in known)]
    for x in stats.violations:
        print("reproduced: %s (%s): %s" % (x["kind"], x.get("mechanism"), str(x["detail"])[:2000]))
    if real:
        print("VIOLATION property=%s replay=%s" % (pid, path))
        return 1
    print("no violation reproduced")
    return 0


def main(argv):
    if argv and argv[0] == "--worker":
        pid, tier, seed, shard, nshards, n, out = argv[1:8]
        worker(pid, tier, int(seed), int(shard), int(nshards), int(n), out)
        return 0
    pid = argv[0].upper()
    tier = os.environ.get("VERIF_TIER", "quick")
    rp = None
    i = 1
    while i < len(argv):
        if argv[i] == "--tier":
            tier = argv[i + 1]
            i += 2
        elif argv[i] == "--replay":
            rp = argv[i + 1]
            i += 2
        else:
            i += 1
    seed = int(os.environ.get("VERIF_SEED", "0"))
    if rp:
        return replay(pid, rp)
    return supervise(pid, tier, seed)


if __name__ == "__main__":
    sys.exit(main(sys.argv[1:]))
