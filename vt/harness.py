"""Build a real tartiflette Engine from a schema model, wired to recording monitors.

All resolvers/type resolvers are thin closures that delegate to the World found in the
request context (`ctx["world"]`), so one engine serves many requests with different data,
faults and schedulers — and concurrent requests each carry their own world.
"""
from vt import boot

boot.init()

from tartiflette import Directive, Engine, Resolver, Scalar, Subscription, TypeResolver  # noqa: E402

from vt import smodel  # noqa: E402
from vt.values import canon  # noqa: E402
from vt.world import meta_of  # noqa: E402


class TagScalar:
    def __init__(self, label=None):
        self.label = label

    def coerce_output(self, v):
        if not isinstance(v, str):
            raise TypeError("Tag out needs str")
        if not v.strip():
            return None
        if self.label is not None:
            return "out(%s)@%s" % (v, self.label)
        return "out(%s)" % v

    def coerce_input(self, v):
        if not isinstance(v, str):
            raise TypeError("Tag needs str")
        return "in(%s)" % v

    def parse_literal(self, ast):
        from tartiflette.constants import UNDEFINED_VALUE
        from tartiflette.language.ast import StringValueNode
        if isinstance(ast, StringValueNode):
            return "in(%s)" % ast.value
        return UNDEFINED_VALUE


class EvenScalar:
    def coerce_output(self, v):
        if isinstance(v, bool) or not isinstance(v, int) or v % 2:
            raise TypeError("Even out needs even int")
        return None if v == 100 else v

    def coerce_input(self, v):
        if isinstance(v, bool) or not isinstance(v, int) or v % 2:
            raise TypeError("Even needs even int")
        return v

    def parse_literal(self, ast):
        from tartiflette.constants import UNDEFINED_VALUE
        from tartiflette.language.ast import IntValueNode
        if isinstance(ast, IntValueNode):
            v = int(ast.value)
            if v % 2 == 0:
                return v
        return UNDEFINED_VALUE


def _foreign(w, label, what):
    if getattr(w, "label", None) != label:
        w.anomalies.append(("registration-of-another-schema-name-used", what, "registered for %r, used by %r" % (label, getattr(w, "label", None))))


def _mk_resolver(T, fname, label=None):
    async def resolver(parent, args, ctx, info):
        _foreign(ctx["world"], label, "resolver %s.%s" % (T, fname))
        return await ctx["world"].resolve(T, fname, parent, args, ctx, info)
    resolver.__name__ = "r_%s_%s" % (T, fname)
    return resolver


def _mk_source(T, fname, label=None):
    async def source(parent, args, ctx, info):
        _foreign(ctx["world"], label, "subscription source %s.%s" % (T, fname))
        async for ev in ctx["world"].source(T, fname, parent, args, ctx, info):
            yield ev
    source.__name__ = "src_%s_%s" % (T, fname)
    return source


def _mk_type_resolver(level, label, blabel=None):
    def type_resolver(result, ctx, info, abstract_type):
        w = ctx["world"]
        _foreign(w, blabel, "type resolver %s" % label)
        w.tr_calls.append((level, abstract_type.name, "%s.%s" % (info.parent_type.name, info.field_name)))
        m = meta_of(result)
        if m is None:
            return "NoMeta_"
        name = m.hints[level]
        # alternate between answering with a name and with the type object
        if w.rng_for(m.id + "|trobj").random() < 0.3:
            try:
                return info.schema.find_type(name)
            except KeyError:
                return name
        return name
    type_resolver.__name__ = "tr_%s_%s" % (level, label)
    return type_resolver


async def _default_resolver(parent, args, ctx, info):
    return await ctx["world"].default_resolve(parent, args, ctx, info)


class GateDirective:
    """@vtgate: a suspension point (scheduler gate) in field execution and argument coercion."""

    async def on_field_execution(self, directive_args, next_resolver, parent, args, ctx, info):
        w = ctx["world"]
        if w.sched is not None:
            await w.sched.gate("f:" + "/".join(map(str, info.path.as_list())))
        return await next_resolver(parent, args, ctx, info)

    async def on_argument_execution(self, directive_args, next_directive, parent_node, argument_definition_node,
                                    argument_node, value, ctx):
        w = ctx["world"]
        if w.sched is not None:
            loc = parent_node.location
            await w.sched.gate("a:%s.%s@%s:%s" % (parent_node.name.value, argument_definition_node.name.value,
                                                  loc.line, loc.column), multi=True)
        if (parent_node.name.value, argument_definition_node.name.value) in w.arg_faults:
            from vt.world import make_exception
            # a plain exception, or (arg_fault_kind == "raise_tf") one derived from the library's error class
            raise make_exception(getattr(w, "arg_fault_kind", "raise"),
                                 "arg:%s.%s" % (parent_node.name.value, argument_definition_node.name.value))
        return await next_directive(parent_node, argument_definition_node, argument_node, value, ctx)


    async def on_post_input_coercion(self, directive_args, next_directive, parent_node, value, ctx):
        v = await next_directive(parent_node, value, ctx)
        w = ctx.get("world") if isinstance(ctx, dict) else None
        fname = directive_args.get("k")       # "<InputType>.<field>"
        if w is not None and v is not None and fname is not None and fname in w.input_faults:
            from vt.world import make_exception
            # the hook of a directive on an INPUT FIELD definition refuses the value (plain or library-derived exception)
            raise make_exception(getattr(w, "arg_fault_kind", "raise"), "in:%s" % fname)
        return v


class CtxDirective:
    """@vtctx on input fields / arguments: the coerced value depends on the REQUEST context (C15: nothing coerced for one
    request may be served to another)."""

    async def on_post_input_coercion(self, directive_args, next_directive, parent_node, value, ctx):
        v = await next_directive(parent_node, value, ctx)
        tag = ctx.get("tag") if isinstance(ctx, dict) else None
        return "%s@%s" % (v, tag) if isinstance(v, str) else v

    async def on_argument_execution(self, directive_args, next_directive, parent_node, argument_definition_node, argument_node, value, ctx):
        v = await next_directive(parent_node, argument_definition_node, argument_node, value, ctx)
        tag = ctx.get("tag") if isinstance(ctx, dict) else None
        return "%s@%s" % (v, tag) if isinstance(v, str) else v


class NoOpDirective:
    """Implementation without hooks for directives that are only declared/applied."""


class RecDirective:
    """@vtrec(...): records the coerced directive arguments it receives (query-side, FIELD)."""

    async def on_field_execution(self, directive_args, next_resolver, parent, args, ctx, info):
        ctx["world"].dir_calls.append(("vtrec", "/".join(map(str, info.path.as_list())), canon(directive_args), dict(directive_args)))
        return await next_resolver(parent, args, ctx, info)


class PassDirective:
    """@vtpass on SCHEMA: both schema-level hooks forward the request unchanged, with the arguments passed positionally (the
    documented shape) or by keyword.  Counts its invocations in the request context's world."""

    def __init__(self, style):
        self.kw = style == "keyword"

    async def on_schema_execution(self, directive_args, next_directive, schema, document, parsing_errors, operation_name,
                                  context, variables, initial_value):
        _count_pass(context, "on_schema_execution")
        if self.kw:
            return await next_directive(schema, document, parsing_errors, operation_name=operation_name, context=context,
                                        variables=variables, initial_value=initial_value)
        return await next_directive(schema, document, parsing_errors, operation_name, context, variables, initial_value)

    async def on_schema_subscription(self, directive_args, next_directive, schema, document, parsing_errors, operation_name,
                                     context, variables, initial_value):
        _count_pass(context, "on_schema_subscription")
        if self.kw:
            gen = next_directive(schema, document, parsing_errors, operation_name=operation_name, context=context,
                                 variables=variables, initial_value=initial_value)
        else:
            gen = next_directive(schema, document, parsing_errors, operation_name, context, variables, initial_value)
        async for r in gen:
            yield r


PASS_CALLS = {}


def _count_pass(context, hook):
    PASS_CALLS[hook] = PASS_CALLS.get(hook, 0) + 1
    w = context.get("world") if isinstance(context, dict) else None
    if w is not None and hasattr(w, "schema_hook_calls"):
        w.schema_hook_calls.append(hook)
    if w is not None and getattr(w, "deny_request", False):
        # an authorisation-style schema directive: THIS request is rejected before anything runs
        from vt.world import InjectedError
        PASS_CALLS["denied"] = PASS_CALLS.get("denied", 0) + 1
        raise InjectedError("request denied by the schema directive")


class Bundle:
    """One cooked engine for one schema model."""

    def __init__(self, schema, sdl=None, name_prefix="vt", label=None, **engine_opts):
        self.s = schema
        self.label = label
        self.sdl = sdl if sdl is not None else smodel.print_sdl(schema)
        self.name = boot.fresh_schema_name(name_prefix)
        self.opts = engine_opts
        self.engine = None

    def register(self):
        s, sn = self.s, self.name
        if "vtgate" in s.directives:
            Directive("vtgate", schema_name=sn)(GateDirective())
        if "vtrec" in s.directives:
            Directive("vtrec", schema_name=sn)(RecDirective())
        if "vtctx" in s.directives:
            Directive("vtctx", schema_name=sn)(CtxDirective())
        if "vtpass" in s.directives:
            Directive("vtpass", schema_name=sn)(PassDirective(s.directives["vtpass"].impl.split(":")[1]))
        for d in s.directives.values():
            if d.name not in ("vtgate", "vtrec", "vtctx") and getattr(d, "impl", "noop") == "noop":
                Directive(d.name, schema_name=sn)(NoOpDirective())
        for t in s.types.values():
            if t.kind == "SCALAR":
                Scalar(t.name, schema_name=sn)(EvenScalar() if t.impl == "even" else TagScalar(self.label))
            elif t.kind == "OBJECT":
                for f in t.fields.values():
                    if f.resolver == "explicit":
                        kw = {}
                        if f.field_type_resolver:
                            kw["type_resolver"] = _mk_type_resolver("fr", "%s.%s" % (t.name, f.name), self.label)
                        if f.parent_concurrently is not True:
                            kw["parent_concurrently"] = f.parent_concurrently
                        if f.list_concurrently is not None:
                            kw["list_concurrently"] = f.list_concurrently
                        Resolver("%s.%s" % (t.name, f.name), schema_name=sn, **kw)(_mk_resolver(t.name, f.name, self.label))
            elif t.kind in ("INTERFACE", "UNION") and t.type_resolver:
                TypeResolver(t.name, schema_name=sn)(_mk_type_resolver("tr", t.name, self.label))
        if s.subscription:
            for f in s.types[s.subscription].fields.values():
                Subscription("%s.%s" % (s.subscription, f.name), schema_name=sn)(_mk_source(s.subscription, f.name, self.label))

    async def build(self):
        self.register()
        return await self.cook()

    async def cook(self):
        opts = dict(self.opts)
        if self.s.custom_default_resolver and "custom_default_resolver" not in opts:
            opts["custom_default_resolver"] = _default_resolver
        if self.s.custom_default_type_resolver and "custom_default_type_resolver" not in opts:
            opts["custom_default_type_resolver"] = _mk_type_resolver("cd", "default", self.label)
        ctor_name = getattr(self, "ctor_name", None)
        if ctor_name:
            # Engine(schema_name=X).cook(schema_name=Y): what is given to cook() wins
            e = Engine(self.sdl, schema_name=ctor_name, **opts)
            await e.cook(schema_name=self.name)
        else:
            e = Engine(self.sdl, schema_name=self.name, **opts)
            await e.cook()
        self.engine = e
        return e

    def dispose(self):
        boot.forget_schema(self.name)
        self.engine = None
