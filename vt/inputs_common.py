"""Shared helpers for the input-coercion properties (C04, C05, C10): hostile JSON values at
every position of a value tree, an independent checker of delivered argument dicts."""
import math

from vt import values
from vt.smodel import BUILTIN_SCALARS, NODEF, is_nn, named_of

WRONG_FOR = {
    "Int": [True, False, "1", "", 1.5, 2 ** 31, -2 ** 31 - 1, 1.0, -0.0, [1], {}, 10 ** 30, float("nan"), float("inf")],
    "Float": [True, "1.5", "", [1.5], {}, 10 ** 400, float("nan"), float("inf"), float("-inf")],
    "String": [1, 0, True, 1.5, [], ["a"], {}, {"a": "b"}],
    "Boolean": [0, 1, "true", "false", "", 1.0, [], {}],
    "ID": [1.5, True, False, [], {}, 1.0, float("nan"), ["id"]],
}


def wrong_leaf(rng, s, name):
    if name in WRONG_FOR:
        return rng.choice(WRONG_FOR[name])
    td = s.types[name]
    if td.kind == "ENUM":
        return rng.choice(["NOPE_", td.values[0].lower() + "_", 1, True, [td.values[0]], {}, td.values[0] + " "])
    if td.kind == "SCALAR":
        return rng.choice([5, True, []]) if td.impl == "tag" else rng.choice([3, "2", 2.5, True, -1])
    return rng.choice([[], "str", 5, True])


def mutate(rng, s, t, v, depth=0):
    """Returns (mutated value, description).  Picks one position of the value tree."""
    nn = t[0] == "NN"
    tt = t[1] if nn else t
    if v is None:
        # put something (right or wrong) where null was, or keep
        return wrong_leaf(rng, s, named_of(tt)), "replace-null"
    if tt[0] == "L":
        if isinstance(v, list) and v and rng.random() < 0.6:
            i = rng.randrange(len(v))
            out = list(v)
            out[i], d = mutate(rng, s, tt[1], v[i], depth + 1)
            return out, "item%d/%s" % (i, d)
        r = rng.random()
        if r < 0.25:
            return None, "null-list"
        if r < 0.5 and isinstance(v, list):
            return v + [None], "append-null-item"
        if r < 0.75:
            return wrong_leaf(rng, s, named_of(tt)), "scalar-for-list"
        return {"not": "a list"}, "dict-for-list"
    name = tt[1]
    td = s.types.get(name)
    if td is not None and td.kind == "INPUT_OBJECT" and isinstance(v, dict):
        r = rng.random()
        if v and r < 0.45:
            k = rng.choice(sorted(v))
            out = dict(v)
            out[k], d = mutate(rng, s, td.field(k).type, v[k], depth + 1)
            return out, "field %s/%s" % (k, d)
        if r < 0.6:
            return dict(v, unknown_field_=1), "unknown-field"
        req = [f.name for f in td.fields if f.name in v and is_nn(f.type)]
        if req and r < 0.8:
            out = dict(v)
            del out[rng.choice(req)]
            return out, "drop-required"
        if r < 0.9:
            return rng.choice([[], "str", 5, True, [v]]), "non-object"
        return None, "null-object"
    r = rng.random()
    if r < 0.2:
        return None, "null-leaf"
    return wrong_leaf(rng, s, name), "wrong-leaf"


def unwrap_singletons(rng, t, v, p=0.3):
    """Valid respelling: a one-element list may be written as its bare element."""
    tt = t[1] if t[0] == "NN" else t
    if tt[0] == "L" and isinstance(v, list):
        inner = [unwrap_singletons(rng, tt[1], x, p) for x in v]
        if len(inner) == 1 and inner[0] is not None and not isinstance(inner[0], list) and rng.random() < p:
            return inner[0]
        return inner
    return v


def delivered_conforms(s, t, v, path="value"):
    """None if the Python value v delivered to a resolver is of declared input type t."""
    if t[0] == "NN":
        if v is None:
            return "%s: null for non-null %s" % (path, t)
        return delivered_conforms(s, t[1], v, path)
    if v is None:
        return None
    if t[0] == "L":
        if type(v) is not list:
            return "%s: %s delivered for list type" % (path, type(v).__name__)
        for i, x in enumerate(v):
            r = delivered_conforms(s, t[1], x, "%s[%d]" % (path, i))
            if r:
                return r
        return None
    name = t[1]
    if name == "Int":
        ok_ = type(v) is int and values.INT_MIN <= v <= values.INT_MAX
    elif name == "Float":
        ok_ = type(v) is float and math.isfinite(v)
    elif name in ("String", "ID"):
        ok_ = type(v) is str
    elif name == "Boolean":
        ok_ = type(v) is bool
    else:
        td = s.types[name]
        if td.kind == "ENUM":
            ok_ = type(v) is str and v in td.values
        elif td.kind == "SCALAR":
            ok_ = (type(v) is str and v.startswith("in(")) if td.impl == "tag" else (type(v) is int and v % 2 == 0)
        else:
            if type(v) is not dict:
                return "%s: %s delivered for input object %s" % (path, type(v).__name__, name)
            for k, x in v.items():
                f = td.field(k)
                if f is None:
                    return "%s: unknown key %s delivered for %s" % (path, k, name)
                r = delivered_conforms(s, f.type, x, "%s.%s" % (path, k))
                if r:
                    return r
            for f in td.fields:
                if is_nn(f.type) and f.name not in v:
                    return "%s: required key %s missing in delivered %s" % (path, f.name, name)
            return None
    return None if ok_ else "%s: %r (%s) delivered for %s" % (path, v, type(v).__name__, name)


def args_conform(s, argdefs, args):
    for a in argdefs:
        if a.name in args:
            r = delivered_conforms(s, a.type, args[a.name], a.name)
            if r:
                return r
        elif is_nn(a.type):
            return "%s: required argument absent" % a.name
    for k in args:
        if not any(a.name == k for a in argdefs):
            return "undeclared argument %s delivered" % k
    return None
