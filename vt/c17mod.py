"""A user module for the `modules=` engine option (C17): registers a resolver for the schema name it is baked for
and contributes SDL.  Every co-resident bundle lists this same module with the same config."""


def bake(schema_name, config):
    from tartiflette import Resolver

    @Resolver("%s.vtModField" % config["root"], schema_name=schema_name)
    async def resolve_mod_field(parent, args, ctx, info):
        w = ctx["world"]
        w.marks.append("mod:" + str(w.label))
        return "from-module"
    return "extend type %s { vtModField: String }" % config["root"]
