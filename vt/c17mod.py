"""A user module for the `modules=` engine option (C17): registers a resolver for the schema name it is baked for
and contributes SDL (a field, and a scalar whose implementation the harness registers).  Every co-resident bundle lists
this same module with the same config.  `bake` is a coroutine that yields to the event loop around its registration, so
that concurrent cooks of several engines really interleave."""
import asyncio


async def bake(schema_name, config):
    from tartiflette import Resolver
    await asyncio.sleep(0)

    @Resolver("%s.vtModField" % config["root"], schema_name=schema_name)
    async def resolve_mod_field(parent, args, ctx, info):
        w = ctx["world"]
        w.marks.append("mod:" + str(w.label))
        return "from-module"

    @Resolver("%s.vtSeq" % config["root"], schema_name=schema_name)
    async def resolve_seq(parent, args, ctx, info):
        return "s"
    await asyncio.sleep(0)
    await asyncio.sleep(0)
    return "scalar VtSeq\n\nextend type %s { vtModField: String vtSeq: VtSeq }" % config["root"]
