"""Input values: model literals, JSON values, canonical form, and the *reference*
input-coercion algorithms (June-2018 spec sections 3.x "Input Coercion", 6.1.2
CoerceVariableValues, 6.4.1 CoerceArgumentValues), three-valued where the spec leaves
a choice.

Model literal values: ("int", int) ("float", "1.5") ("string", s) ("bool", b) ("null",)
("enum", name) ("list", [..]) ("object", [(k, v), ..]) ("var", name)

Reference results: ("ok", v) | ("err", why) | ("either", v)   -- "either": the engine
may accept (then the value must be v) or reject.
"""
import json
import math

from vt.smodel import BUILTIN_SCALARS, NODEF, is_nn, named_of, tstr

INT_MIN, INT_MAX = -2 ** 31, 2 ** 31 - 1
ABSENT = ("absent",)


def canon(v, depth=0):
    if v is None:
        return "null"
    if v is True:
        return "true"
    if v is False:
        return "false"
    t = type(v)
    if t is int:
        return "i%d" % v if abs(v) < 10 ** 30 else "i~%d" % v.bit_length()
    if t is float:
        return "f%r" % v
    if t is str:
        return json.dumps(v) if len(v) < 200 else json.dumps(v[:200]) + "~%d" % len(v)
    if depth > 8:
        return "~deep"
    if t in (list, tuple):
        return ("[" if t is list else "(") + ",".join(canon(x, depth + 1) for x in v) + "]"
    if t is dict:
        return "{" + ",".join(json.dumps(str(k)) + ":" + canon(v[k], depth + 1) for k in sorted(v, key=str)) + "}"
    return "<%s:%s>" % (t.__name__, _safe_repr(v))


def _safe_repr(v):
    try:
        return repr(v)[:80]
    except Exception:  # noqa
        return "?"


# ------------------------------------------------------------------ result combinators

def ok(v):
    return ("ok", v)


def err(why):
    return ("err", why)


def combine(children, build):
    """children: list of results; build(list of values) -> value."""
    st = "ok"
    vals = []
    for c in children:
        if c[0] == "err":
            return c
        if c[0] == "either":
            st = "either"
        vals.append(c[1])
    return (st, build(vals))


# ------------------------------------------------------------------ custom scalar semantics

def custom_scalar_input(impl, v):
    """Harness-defined scalars.  tag: str -> 'in(' + s + ')'.  even: even int -> itself."""
    if impl == "tag":
        if isinstance(v, str):
            return ok("in(%s)" % v)
        return err("Tag needs str")
    if impl == "even":
        if isinstance(v, int) and not isinstance(v, bool) and v % 2 == 0:
            return ok(v)
        return err("Even needs even int")
    raise ValueError(impl)


def custom_scalar_literal(impl, lit):
    if impl == "tag":
        if lit[0] == "string":
            return ok("in(%s)" % lit[1])
        return err("Tag literal needs string")
    if impl == "even":
        if lit[0] == "int" and lit[1] % 2 == 0:
            return ok(lit[1])
        return err("Even literal needs even int")
    raise ValueError(impl)


def custom_scalar_output(impl, v):
    """Returns ("ok", wire) | ("err", why)."""
    if impl == "tag":
        if isinstance(v, str):
            # a blank value has no wire form: result coercion itself yields null (legal for a custom scalar; at a
            # non-null position that null is a failure of the field like any other)
            return ok(None if not v.strip() else "out(%s)" % v)
        return err("Tag out needs str")
    if impl == "even":
        if isinstance(v, int) and not isinstance(v, bool) and v % 2 == 0:
            return ok(None if v == 100 else v)
        return err("Even out needs even int")
    raise ValueError(impl)


# ------------------------------------------------------------------ JSON (variable) coercion

def coerce_scalar_json(name, v):
    if name == "Int":
        if isinstance(v, bool):
            return err("bool for Int")
        if isinstance(v, int):
            return ok(v) if INT_MIN <= v <= INT_MAX else err("Int range")
        if isinstance(v, float):
            if math.isfinite(v) and v == math.floor(v) and INT_MIN <= v <= INT_MAX:
                return ("either", int(v))
            return err("non integral float for Int")
        return err("not a number for Int")
    if name == "Float":
        if isinstance(v, bool):
            return err("bool for Float")
        if isinstance(v, (int, float)):
            try:
                f = float(v)
            except OverflowError:
                return err("overflow")
            return ok(f) if math.isfinite(f) else err("non finite")
        return err("not a number for Float")
    if name == "String":
        return ok(v) if isinstance(v, str) else err("not str")
    if name == "Boolean":
        return ok(v) if isinstance(v, bool) else err("not bool")
    if name == "ID":
        if isinstance(v, str):
            return ok(v)
        if isinstance(v, bool):
            return err("bool for ID")
        if isinstance(v, int):
            return ok(str(v))
        if isinstance(v, float) and math.isfinite(v) and v == math.floor(v):
            return ("either", str(int(v)))
        return err("bad ID")
    raise ValueError(name)


def coerce_json(s, t, v):
    """Input coercion of a JSON value v to type t.  v is never ABSENT here."""
    if t[0] == "NN":
        if v is None:
            return err("null for non-null %s" % tstr(t))
        return coerce_json(s, t[1], v)
    if v is None:
        return ok(None)
    if t[0] == "L":
        if isinstance(v, list):
            return combine([coerce_json(s, t[1], x) for x in v], list)
        r = coerce_json(s, t[1], v)
        if r[0] == "err":
            return r
        return (r[0], [r[1]])
    name = t[1]
    if name in BUILTIN_SCALARS:
        return coerce_scalar_json(name, v)
    td = s.types[name]
    if td.kind == "SCALAR":
        return custom_scalar_input(td.impl, v)
    if td.kind == "ENUM":
        if isinstance(v, str) and v in td.values:
            return ok(v)
        return err("not an enum value")
    if td.kind == "INPUT_OBJECT":
        if type(v) is not dict:
            return err("not an object")
        for k in v:
            if td.field(k) is None:
                return err("unknown field %s" % k)
        names, results = [], []
        for f in td.fields:
            if f.name in v:
                names.append(f.name)
                results.append(coerce_json(s, f.type, v[f.name]))
            elif f.default is not NODEF:
                names.append(f.name)
                results.append(coerce_literal(s, f.type, f.default, None))
            elif is_nn(f.type):
                return err("missing required field %s" % f.name)
        return combine(results, lambda vals: dict(zip(names, vals)))
    return err("not an input type")


# ------------------------------------------------------------------ literal coercion

def _missing_var(lit, variables):
    return lit[0] == "var" and (variables is None or lit[1] not in variables)


def coerce_literal(s, t, lit, variables):
    """Coerce model literal `lit` (may contain variables) to type t.
    `variables`: dict of already coerced variable values (absent ones not present)."""
    if lit[0] == "var":
        if variables is None or lit[1] not in variables:
            return err("missing variable")
        v = variables[lit[1]]
        if v is None and t[0] == "NN":
            return err("null variable for non-null")
        return ok(v)
    if t[0] == "NN":
        if lit[0] == "null":
            return err("null literal for non-null")
        return coerce_literal(s, t[1], lit, variables)
    if lit[0] == "null":
        return ok(None)
    if t[0] == "L":
        item_t = t[1]
        if lit[0] == "list":
            res = []
            for x in lit[1]:
                if _missing_var(x, variables):
                    if item_t[0] == "NN":
                        return err("missing variable for non-null item")
                    res.append(ok(None))
                else:
                    res.append(coerce_literal(s, item_t, x, variables))
            return combine(res, list)
        r = coerce_literal(s, item_t, lit, variables)
        if r[0] == "err":
            return r
        return (r[0], [r[1]])
    name = t[1]
    if name == "Int":
        if lit[0] == "int" and INT_MIN <= lit[1] <= INT_MAX:
            return ok(lit[1])
        return err("bad Int literal")
    if name == "Float":
        if lit[0] in ("int", "float"):
            try:
                f = float(lit[1])
            except (OverflowError, ValueError):
                return err("bad float")
            return ok(f) if math.isfinite(f) else err("non finite literal")
        return err("bad Float literal")
    if name == "String":
        return ok(lit[1]) if lit[0] == "string" else err("bad String literal")
    if name == "Boolean":
        return ok(lit[1]) if lit[0] == "bool" else err("bad Boolean literal")
    if name == "ID":
        if lit[0] == "string":
            return ok(lit[1])
        if lit[0] == "int":
            return ok(str(lit[1]))
        return err("bad ID literal")
    td = s.types[name]
    if td.kind == "SCALAR":
        return custom_scalar_literal(td.impl, lit)
    if td.kind == "ENUM":
        if lit[0] == "enum" and lit[1] in td.values:
            return ok(lit[1])
        return err("bad enum literal")
    if td.kind == "INPUT_OBJECT":
        if lit[0] != "object":
            return err("not an object literal")
        given = {}
        for k, x in lit[1]:
            if td.field(k) is None:
                return err("unknown field")
            if k in given:
                return err("duplicate field")
            given[k] = x
        names, results = [], []
        for f in td.fields:
            x = given.get(f.name)
            if x is None or _missing_var(x, variables):
                if f.default is not NODEF:
                    names.append(f.name)
                    results.append(coerce_literal(s, f.type, f.default, None))
                elif is_nn(f.type):
                    return err("missing required field")
                continue
            names.append(f.name)
            results.append(coerce_literal(s, f.type, x, variables))
        return combine(results, lambda vals: dict(zip(names, vals)))
    return err("not an input type")


# ------------------------------------------------------------------ variables / arguments

def coerce_variables(s, vardefs, raw):
    """vardefs: list of (name, type, default|NODEF).  raw: dict.
    Returns (status, values, offenders): status "ok"|"err"|"either"."""
    out, offenders, status = {}, [], "ok"
    for name, t, default in vardefs:
        has = name in raw
        if not has and default is not NODEF:
            r = coerce_literal(s, t, default, None)
        elif (not has or raw[name] is None) and t[0] == "NN":
            r = err("required variable missing or null")
        elif has:
            r = coerce_json(s, t, raw[name])
        else:
            continue
        if r[0] == "err":
            offenders.append(name)
            continue
        if r[0] == "either":
            status = "either"
        out[name] = r[1]
    if offenders:
        return "err", None, offenders
    return status, out, []


def coerce_arguments(s, argdefs, given, variables):
    """argdefs: list[Arg]; given: list of (name, literal) from the field/directive node.
    Returns ("ok", dict) | ("err", why) | ("either", dict)."""
    g = dict(given)
    names, results = [], []
    for a in argdefs:
        lit = g.get(a.name)
        if lit is not None and lit[0] == "var":
            has = variables is not None and lit[1] in variables
            is_null = has and variables[lit[1]] is None
        else:
            has = lit is not None
            is_null = has and lit[0] == "null"
        if not has and a.default is not NODEF:
            names.append(a.name)
            results.append(coerce_literal(s, a.type, a.default, None))
        elif (not has or is_null) and a.type[0] == "NN":
            return err("required argument %s missing or null" % a.name)
        elif has:
            names.append(a.name)
            if is_null:
                results.append(ok(None))
            elif lit[0] == "var":
                results.append(ok(variables[lit[1]]))
            else:
                results.append(coerce_literal(s, a.type, lit, variables))
    return combine(results, lambda vals: dict(zip(names, vals)))


# ------------------------------------------------------------------ generators of valid values

STRINGS = ["", "a", "hello world", "x\"y", "back\\slash", "line\nbreak", "tab\t", "é", "日本", "😀",
           "1", "true", "null", "{}", "#nocomment", "$v", "a,b", "é́", "  pad  ",
           # a backslash directly followed by a character that is an escape letter, a quote or another backslash
           "C:\\new\\table.txt", "q\\\"", "\\\\b", "tail\\"]
INTS = [0, 1, -1, 2, 7, 42, -100, INT_MAX, INT_MIN, 1000000]
FLOATS = [0.0, 1.5, -2.25, 1e10, 3.0, 1e-7, 123456.789, -0.5]


def float_text(rng, f):
    r = repr(f)
    if "e" in r or "inf" in r or "nan" in r:
        m, e = ("%e" % f).split("e")
        return "%se%d" % (m.rstrip("0").rstrip(".") if "." in m else m, int(e)) if rng.random() < 0.5 else "%sE%+d" % (m, int(e))
    return r


def gen_plain(rng, s, t, depth=0, p_null=0.15):
    """A *coerced-form-agnostic* abstract value: Python JSON value valid for type t
    (what a client would send as a variable)."""
    if t[0] == "NN":
        return _gen_plain_nn(rng, s, t[1], depth)
    if rng.random() < p_null:
        return None
    return _gen_plain_nn(rng, s, t, depth)


def _gen_plain_nn(rng, s, t, depth):
    if t[0] == "NN":
        t = t[1]
    if t[0] == "L":
        n = rng.choice([0, 1, 1, 2, 3]) if depth < 3 else rng.choice([0, 1])
        return [gen_plain(rng, s, t[1], depth + 1) for _ in range(n)]
    name = t[1]
    if name == "Int":
        return rng.choice(INTS)
    if name == "Float":
        return rng.choice(FLOATS + [1, -3, 0])
    if name == "String":
        return rng.choice(STRINGS)
    if name == "Boolean":
        return rng.random() < 0.5
    if name == "ID":
        return rng.choice(["id1", "42", "", 7, 0, -3, "é"])
    td = s.types[name]
    if td.kind == "SCALAR":
        return rng.choice(STRINGS) if td.impl == "tag" else rng.choice([0, 2, -4, 100])
    if td.kind == "ENUM":
        return rng.choice(td.values)
    if td.kind == "INPUT_OBJECT":
        d = {}
        for f in td.fields:
            required = is_nn(f.type) and f.default is NODEF
            if required or (rng.random() < (0.6 if depth < 2 else 0.15)):
                if named_of(f.type) == name and depth >= 2 and not is_nn(f.type):
                    if rng.random() < 0.7:
                        continue
                d[f.name] = gen_plain(rng, s, f.type, depth + 1)
        return d
    raise ValueError(t)


def plain_to_literal(rng, s, t, v):
    """Spell a plain value (valid for t) as a constant model literal."""
    if v is None:
        return ("null",)
    if t[0] == "NN":
        t = t[1]
    if t[0] == "L":
        if isinstance(v, list):
            return ("list", [plain_to_literal(rng, s, t[1], x) for x in v])
        return plain_to_literal(rng, s, t[1], v)
    name = t[1]
    if name == "Int":
        return ("int", v)
    if name == "Float":
        if isinstance(v, int):
            return ("int", v)
        return ("float", float_text(rng, v))
    if name == "String":
        return ("string", v)
    if name == "Boolean":
        return ("bool", v)
    if name == "ID":
        return ("int", v) if isinstance(v, int) else ("string", v)
    td = s.types[name]
    if td.kind == "SCALAR":
        return ("string", v) if td.impl == "tag" else ("int", v)
    if td.kind == "ENUM":
        return ("enum", v)
    if td.kind == "INPUT_OBJECT":
        items = [(k, plain_to_literal(rng, s, td.field(k).type, x)) for k, x in v.items()]
        rng.shuffle(items)
        return ("object", items)
    raise ValueError(t)


def gen_literal(rng, s, t, variables=None, depth=0):
    return plain_to_literal(rng, s, t, gen_plain(rng, s, t, depth))
