"""The *resolver data world*: a pure function (seed, parent identity, field, args) -> value,
shared by the recording resolvers handed to tartiflette and by the reference executor.

Being pure it is independent of scheduling; being keyed by identity strings every value a
resolver sees identifies the parent it came from (unambiguous histories).
"""
import random

from vt import inputs_common, values
from vt.smodel import BUILTIN_SCALARS, named_of
from vt.values import canon


class Meta:
    __slots__ = ("t", "id", "hints", "absent")

    def __init__(self, t, ident, hints):
        self.t, self.id, self.hints = t, ident, hints


class VDict(dict):
    """dict-style parent; default-resolved fields appear lazily as keys."""
    __slots__ = ("meta", "world")

    def __missing__(self, k):
        v = self.world.default_read(self, k, KeyError)
        return v

    def __repr__(self):
        return "<VDict %s %s>" % (self.meta.t, self.meta.id)


class VObj:
    """attribute-style parent."""

    def __init__(self, world, meta):
        object.__setattr__(self, "_world", world)
        object.__setattr__(self, "_meta", meta)

    def __getattr__(self, k):
        if k.startswith("__") and k.endswith("__"):
            raise AttributeError(k)
        return self._world.default_read(self, k, AttributeError)

    def __repr__(self):
        return "<VObj %s %s>" % (self._meta.t, self._meta.id)


_classes = {}


def class_named(name):
    c = _classes.get(name)
    if c is None:
        c = _classes[name] = type(name, (VObj,), {})
    return c


def meta_of(obj):
    if isinstance(obj, VDict):
        return obj.meta
    if isinstance(obj, VObj):
        return obj._meta
    return None


def ident_of(obj):
    m = meta_of(obj)
    if m is not None:
        return m.id
    if obj is None:
        return "~"
    try:
        return "?" + canon(obj)[:60]
    except Exception:  # noqa
        return "?<uncanon %s>" % type(obj).__name__


class InjectedError(Exception):
    pass


class World:
    P_NULL = 0.12
    P_ABSENT = 0.1

    def __init__(self, schema, seed, faults=None, sched=None, leafgen=None, garbage=None, garbage_p=0.0):
        self.s, self.seed = schema, seed
        self.faults = faults or {}     # inst key -> fault spec (kind, item_index_path)
        self.sched = sched
        self.leafgen = leafgen         # optional adversarial leaf generator (C03)
        self.garbage, self.garbage_p = garbage, garbage_p  # hostile value at any position
        self.returns = []              # (response path, value returned by an explicit resolver)
        self.schema_hook_calls = []    # schema-level pass-through hooks (@vtpass) entered for this request
        self.dir_calls = []            # (directive, path, canon(directive_args), args) recorded by @vtrec
        self.share_values = False      # the SAME Python object is returned whenever one field instance is resolved again
        self._shared = {}              # (through another alias / merged node): the engine must not write into resolver data
        self.p_raise_odd = 0.0         # probability that an explicit resolver raises an awkward exception (no reference model:
                                       # only for checks that judge the response's shape)
        self.p_long_obj = 0.0          # probability that a ROOT-level list of objects is wide (size boundaries: 128, 130, 257 items)
        self.long_obj_sizes = (128, 130, 257)
        self.p_long = 0.0              # probability that a list of leaves is LONG (513 / 600 / 1030 items: size boundaries)
        self.p_null_nonnull = 0.0      # probability of null data at a non-null position (C01: "any resolver data")
        self.mutate_args = False       # resolvers scribble over the argument containers they were given (C15)
        self.arg_fault_kind = "raise"  # or "raise_tf": the failing argument hook raises a library-derived error
        self.input_faults = set()      # input FIELD names whose @vtgate on_post_input_coercion hook raises for non-null values
        self.arg_faults = set()        # (field name, argument name): the @vtgate argument hook raises (C08)
        self.shared_exc = None         # ONE exception instance raised by every "raise_shared" fault (known finding F11)
        self.label = None              # bundle label (C17): closures registered for another schema name must not run
        self.source_log = []           # subscription source events: ("start", field, canon(args)) ("event", i) ("finish",)
        self.events = []               # event spec list for the subscription source: "obj" | "null"
        self.calls = []                # (T.f, parent ident, canon(args), id(ctx))
        self.tr_calls = []             # (level, abstract, Tparent.field)
        self.anomalies = []            # things a resolver saw that cannot be right
        self.fired = []                # fault inst keys that fired
        self.insts = {}                # inst key -> (T, field, raw value): every instance produced (fault discovery)

    # ---------------------------------------------------------------- pure value function
    def inst_key(self, pid, fname, args):
        return "%s/%s(%s)" % (pid, fname, canon(args) if args else "")

    def rng_for(self, key):
        return random.Random("%s|%s" % (self.seed, key))

    def field_raw(self, T, fname, pid, args):
        """Value before fault application."""
        f = self.s.types[T].fields[fname]
        key = self.inst_key(pid, fname, args)
        rng = self.rng_for(key)
        return self.gen_value(rng, f.type, key, T, f), key

    def field_outcome(self, T, fname, pid, args):
        """('value', v, key) | ('raise', exc_factory_tag, key)."""
        v, key = self.field_raw(T, fname, pid, args)
        self.insts.setdefault(key, (T, fname, v))
        fault = self.faults.get(key)
        if fault is None:
            if self.share_values:
                v = self._shared.setdefault(key, v)
            return ("value", v, key)
        kind = fault[0]
        if kind in ("raise", "raise_tf", "raise_odd", "raise_shared"):
            return (kind, None, key)
        if self.share_values:
            if key not in self._shared:
                self._shared[key] = self.apply_fault(v, fault, T, fname, key)
            return ("value", self._shared[key], key)
        return ("value", self.apply_fault(v, fault, T, fname, key), key)

    def gen_value(self, rng, t, ident, T, f, nonnull=False):
        if self.garbage_p and rng.random() < self.garbage_p:
            return self.garbage(rng, named_of(t))
        if t[0] == "NN":
            return self.gen_value(rng, t[1], ident, T, f, True)
        if not nonnull and rng.random() < self.P_NULL:
            return None
        if nonnull and self.p_null_nonnull and rng.random() < self.p_null_nonnull:
            return None     # resolver data may be null where the schema says non-null: a field error the reference predicts
        if t[0] == "L":
            n = rng.choice([0, 1, 2, 2, 3])
            if self.p_long and t[1][0] != "L" and not (t[1][0] == "NN" and t[1][1][0] == "L") \
                    and self.s.kind(named_of(t[1])) in ("SCALAR", "ENUM") and rng.random() < self.p_long:
                n = rng.choice([513, 600, 1030])
            if self.p_long_obj and ident.count("/") <= 1 and "#" not in ident and t[1][0] != "L" \
                    and not (t[1][0] == "NN" and t[1][1][0] == "L") \
                    and self.s.kind(named_of(t[1])) in ("OBJECT", "INTERFACE", "UNION") and rng.random() < self.p_long_obj:
                n = rng.choice(self.long_obj_sizes)
            return [self.gen_value(rng, t[1], "%s#%d" % (ident, i), T, f) for i in range(n)]
        name = t[1]
        kind = self.s.kind(name)
        if kind in ("SCALAR", "ENUM"):
            if self.leafgen is not None:
                return self.leafgen(rng, self.s, name)
            return self.leaf_value(rng, name)
        if kind == "OBJECT":
            return self.make_object(rng, name, ident, T, f, None)
        possible = self.s.possible_types(name)
        true_t = rng.choice(sorted(possible))
        if self.garbage_p and rng.random() < self.garbage_p:
            # hostile runtime type: an object type outside the possible types, or no type at all
            foreign = [o.name for o in self.s.objects() if o.name not in possible]
            return self.make_object(rng, true_t, ident, T, f, name,
                                    override_name=rng.choice(foreign + ["NoSuchType_"]))
        return self.make_object(rng, true_t, ident, T, f, name)

    def leaf_value(self, rng, name):
        if name == "Int":
            return rng.choice(values.INTS)
        if name == "Float":
            return rng.choice(values.FLOATS + [1, -3, 0])
        if name == "String":
            return rng.choice(values.STRINGS)
        if name == "Boolean":
            return rng.random() < 0.5
        if name == "ID":
            return rng.choice(["id1", "42", "", 7, 0, -3, "é"])
        td = self.s.types[name]
        if td.kind == "ENUM":
            return rng.choice(td.values)
        return rng.choice(values.STRINGS) if td.impl == "tag" else rng.choice([0, 2, -4, 100])

    # ---------------------------------------------------------------- objects
    def type_levels(self, Tparent, f, abstract):
        """Which type-resolver levels are configured for this abstract position, most
        specific first: 'fr' field-level, 'tr' @TypeResolver, 'cd' custom default, 'dflt'."""
        lv = []
        if f is not None and f.field_type_resolver:
            lv.append("fr")
        if self.s.types[abstract].type_resolver:
            lv.append("tr")
        if self.s.custom_default_type_resolver:
            lv.append("cd")
        lv.append("dflt")
        return lv

    def make_object(self, rng, true_t, ident, Tparent, f, abstract, override_name=None):
        hints = {"fr": true_t, "tr": true_t, "cd": true_t, "dflt": true_t}
        if abstract is not None:
            lv = self.type_levels(Tparent, f, abstract)
            others = [x for x in sorted(self.s.possible_types(abstract)) if x != true_t]
            for lower in lv[1:]:
                hints[lower] = rng.choice(others + ["NoSuchType_"]) if rng.random() < 0.8 else true_t
            if override_name is not None:
                hints[lv[0]] = override_name
        meta = Meta(true_t, ident, hints)
        style = self.s.types[true_t].style
        if style == "dict":
            o = VDict()
            o.meta, o.world = meta, self
            dict.__setitem__(o, "_typename", hints["dflt"])
            return o
        if style == "attr":
            o = VObj(self, meta)
            object.__setattr__(o, "_typename", hints["dflt"])
            return o
        return class_named(hints["dflt"])(self, meta)

    def root_object(self, type_name, ident="root"):
        meta = Meta(type_name, ident, {"fr": type_name, "tr": type_name, "cd": type_name, "dflt": type_name})
        style = self.s.types[type_name].style
        if style == "dict":
            o = VDict()
            o.meta, o.world = meta, self
            return o
        return VObj(self, meta)

    def effective_type_name(self, obj, Tparent, f, abstract):
        """What the most specific configured type resolver answers for obj."""
        m = meta_of(obj)
        if m is None:
            return None
        return m.hints[self.type_levels(Tparent, f, abstract)[0]]

    # ---------------------------------------------------------------- default-resolved reads
    def default_read(self, obj, k, exc):
        m = meta_of(obj)
        fields = self.s.types[m.t].fields if m.t in self.s.types else {}
        f = fields.get(k)
        if f is None or f.resolver != "default":
            raise exc(k)
        out = self.default_outcome(m.t, k, m.id)
        if out[0] == "absent":
            raise exc(k)
        if out[0] == "raise_shared":
            self.fired.append(out[2])
            raise self.shared_exc
        if out[0] in ("raise", "raise_tf", "raise_odd"):
            self.fired.append(out[2])
            if out[0] == "raise" and isinstance(obj, VObj):
                # a property of an attribute-style parent fails with an ordinary built-in exception: the classes the default
                # resolver itself catches around its *item* lookup (KeyError, TypeError) are still failures of the attribute read
                # ... whose only argument is not always text (`KeyError(7)`: a failed lookup by number)
                raise [InjectedError, KeyError, TypeError, IndexError, ValueError][len(out[2]) % 5](
                    "boom at %s" % out[2] if len(out[2]) % 3 else len(out[2]))
            raise make_exception(out[0], out[2])
        if out[2] in self.faults:
            self.fired.append(out[2])
        return out[1]

    def default_outcome(self, T, fname, pid):
        f = self.s.types[T].fields[fname]
        key = self.inst_key(pid, fname, None)
        if f.type[0] != "NN" and self.rng_for(key + "|absent").random() < self.P_ABSENT and key not in self.faults:
            return ("absent", None, key)
        return self.field_outcome(T, fname, pid, None)

    # ---------------------------------------------------------------- faults
    def apply_fault(self, v, fault, T, fname, key):
        kind, ipath = fault[0], fault[1] if len(fault) > 1 else ()
        f = self.s.types[T].fields[fname]

        def repl(val, t, ip, ident):
            if ip:
                tt = t[1] if t[0] == "NN" else t
                if tt[0] != "L" or not isinstance(val, list) or ip[0] >= len(val):
                    return val
                out = list(val)
                out[ip[0]] = repl(val[ip[0]], tt[1], ip[1:], "%s#%d" % (ident, ip[0]))
                return out
            return self.fault_value(kind, t, ident, T, f)
        return repl(v, f.type, tuple(ipath), key)

    def fault_value(self, kind, t, ident, T, f):
        tt = t[1] if t[0] == "NN" else t
        if kind == "null":
            return None
        if kind == "ret_exc":
            return InjectedError("returned error at %s" % ident)
        if kind == "non_list":
            return ("not", "a", "list")
        if kind == "bad_leaf":
            return bad_leaf(self.s, named_of(tt))
        if kind in ("unknown_type", "foreign_type"):
            abstract = tt[1]
            rng = self.rng_for(ident + "|fault")
            possible = sorted(self.s.possible_types(abstract))
            if kind == "unknown_type":
                name = "NoSuchType_"
            else:
                foreign = [o.name for o in self.s.objects() if o.name not in possible]
                name = rng.choice(foreign)
            return self.make_object(rng, rng.choice(possible), ident, T, f, abstract, override_name=name)
        raise ValueError(kind)

    def applicable_faults(self, T, fname, v):
        """Fault specs (kind, item path) meaningful for this field instance's value v."""
        f = self.s.types[T].fields[fname]
        out = [("raise",), ("raise_tf",), ("raise_odd",), ("ret_exc",), ("null",)]

        def walk(t, val, ip):
            tt = t[1] if t[0] == "NN" else t
            if ip:
                out.append(("null", ip))
                out.append(("ret_exc", ip))
            if tt[0] == "L":
                out.append(("non_list", ip))
                if isinstance(val, list):
                    for i, x in enumerate(val):
                        walk(tt[1], x, ip + (i,))
                return
            name = tt[1]
            k = self.s.kind(name)
            if k in ("SCALAR", "ENUM"):
                if bad_leaf(self.s, name) is not NO_BAD:
                    out.append(("bad_leaf", ip))
            elif k in ("INTERFACE", "UNION"):
                out.append(("unknown_type", ip))
                possible = self.s.possible_types(name)
                if any(o.name not in possible for o in self.s.objects()):
                    out.append(("foreign_type", ip))
        walk(f.type, v, ())
        return out

    # ---------------------------------------------------------------- resolver entry points
    async def resolve(self, T, fname, parent, args, ctx, info):
        pid = ident_of(parent)
        self.calls.append(("%s.%s" % (T, fname), pid, canon(args), id(ctx)))
        m = meta_of(parent)
        if m is not None and m.t != T and m.id != "root" and not m.id.startswith("ev"):
            self.anomalies.append(("parent-type", T, fname, m.t, pid))
        if info.field_name != fname or info.parent_type.name != T:
            self.anomalies.append(("info", T, fname, info.field_name, info.parent_type.name))
        bad = inputs_common.args_conform(self.s, self.s.types[T].fields[fname].args, args)
        if bad:
            self.anomalies.append(("delivered-argument-type", "%s.%s" % (T, fname), bad))
        out = self.field_outcome(T, fname, pid, args if args else None)
        if self.p_raise_odd and self.rng_for(out[2] + "|odd").random() < self.p_raise_odd:
            raise make_exception(self.rng_for(out[2] + "|oddk").choice(["raise_odd", "raise_odd", "raise", "raise_tf", "raise_builtin"]), out[2])
        if self.sched is not None:
            await self.sched.gate("r:" + "/".join(map(str, info.path.as_list())))
        if out[2] in self.faults:
            self.fired.append(out[2])
        if self.mutate_args:
            _scribble(args)
        if out[0] == "raise_shared":
            raise self.shared_exc
        if out[0] in ("raise", "raise_tf", "raise_odd"):
            raise make_exception(out[0], out[2])
        self.returns.append((tuple(info.path.as_list()), out[1], named_of(self.s.types[T].fields[fname].type)))
        return out[1]

    def event(self, i, type_name):
        kind = self.events[i]
        if kind == "null":
            return None
        return self.root_object(type_name, "ev%d" % i)

    async def source(self, T, fname, parent, args, ctx, info):
        """Subscription source stream: yields the configured events, recording what happens."""
        self.source_log.append(("start", fname, canon(args), ident_of(parent)))
        bad = inputs_common.args_conform(self.s, self.s.types[T].fields[fname].args, args)
        if bad:
            self.anomalies.append(("delivered-argument-type", "%s.%s" % (T, fname), bad))
        for i in range(len(self.events)):
            if self.sched is not None:
                await self.sched.gate("s:%s:ev%d" % (fname, i))
            self.source_log.append(("event", i))
            yield self.event(i, T)
        self.source_log.append(("finish",))

    async def default_resolve(self, parent, args, ctx, info):
        """custom_default_resolver: same contract as the built-in default resolver."""
        self.calls.append(("default:%s.%s" % (info.parent_type.name, info.field_name), ident_of(parent), canon(args), id(ctx)))
        if self.sched is not None:
            await self.sched.gate("d:" + "/".join(map(str, info.path.as_list())))
        try:
            return getattr(parent, info.field_name)
        except AttributeError:
            pass
        try:
            return parent[info.field_name]
        except (KeyError, TypeError):
            pass
        return None


def _scribble(v):
    """Modify every mutable container of an argument value in place."""
    if isinstance(v, dict):
        for x in list(v.values()):
            _scribble(x)
        v["scribbled_"] = True
    elif isinstance(v, list):
        for x in v:
            _scribble(x)
        v.append("scribbled_")


NO_BAD = object()


def bad_leaf(s, name):
    """A value the leaf type certainly cannot serialise."""
    if name == "Int":
        return "not-an-int"
    if name == "Float":
        return "not-a-float"
    if name == "Boolean":
        return "not-a-bool"
    if name == "ID":
        return 1.5
    if name == "String":
        return NO_BAD
    td = s.types[name]
    if td.kind == "ENUM":
        return "NOT_A_DECLARED_VALUE_"
    return 1.5  # tag needs str, even needs even int


def make_shared_exception():
    from tartiflette.types.exceptions.tartiflette import TartifletteError

    class SharedUserError(TartifletteError):
        pass
    return SharedUserError("shared user error instance", extensions={"code": "E_SHARED"})


class UnprintableError(Exception):
    """An application exception whose __str__ itself fails (a formatting bug, a too-long int on 3.12, ...)."""

    def __str__(self):
        raise RuntimeError("this exception cannot be printed")


class OddMessageError(Exception):
    """An application exception that happens to carry a `message` attribute which is not text."""
    message = {"not": "a string", "code": 7}


def make_exception(kind, key):
    if kind == "raise":
        return InjectedError("boom at %s" % key)
    if kind == "raise_builtin":
        # ordinary built-in exceptions whose only argument is not text: a failed lookup by number, by tuple, by None, by bytes
        return [KeyError(7), KeyError(None), IndexError(3), TypeError(("a", 1)), ValueError(b"bytes"), KeyError(("k", 2)),
                LookupError(0.5)][len(key) % 7]
    if kind == "raise_odd":
        # exceptions that are awkward to REPORT: unprintable, or the library's own container class without content
        from tartiflette.types.exceptions.tartiflette import MultipleException
        return [UnprintableError(), MultipleException(), MultipleException([InjectedError("inner boom at %s" % key)]),
                OddMessageError("boom at %s" % key)][len(key) % 4]
    from tartiflette.types.exceptions.tartiflette import TartifletteError

    class UserError(TartifletteError):
        pass
    if len(key) % 3 == 0:
        # an application exception that is not derived from the library class but provides the `coerce_value` the engine
        # looks for (upstream's issue209 shape): no `path`, `locations` or `extensions` attribute of its own
        class Coercible(Exception):
            def coerce_value(self, *_args, path=None, locations=None, **_kwargs):
                out = {"message": "user message at %s" % key, "path": path,
                       "locations": [loc.collect_value() for loc in locations or []],
                       "extensions": {"code": "E_INJECTED", "key": key}}
                return out
        return Coercible("developer message")
    if len(key) % 2:
        # the user-facing text given separately from the developer message
        return UserError("developer message", user_message="user message at %s" % key, extensions={"code": "E_INJECTED", "key": key})
    return UserError("user message at %s" % key, extensions={"code": "E_INJECTED", "key": key})
