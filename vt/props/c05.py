"""C05 — field and directive arguments reach resolvers spec-coerced; literal = variable."""
from vt import docgen, exec_common as X, inputs_common as I, refexec, smodel, values
from vt.props import c06
from vt.smodel import NODEF, Arg, DirectiveDef, N, NN, is_nn, named_of, nullable, print_value, tstr
from vt.values import canon

LEVEL = "exploration"
N_CASES = {"quick": 480, "thorough": 12000}
TARGETS_PER_SCHEMA = 8
MIN_NONTRIVIAL = 50
RULE = ("case = random schema with arguments of every input type on fields and on a recording query-side directive "
        "@vtrec x %d targets (a field argument or a directive argument) x one abstract value (valid plain value, null, or "
        "'omitted'), rendered in every applicable spelling: constant literal; variable of the exact type; variable of the "
        "non-null type; variable left out but carrying the value as its default; variable nested inside a list/object "
        "literal (one element / one field replaced by $x); omission relying on an identical schema default; explicit null "
        "literal vs null variable; omitted vs absent variable. Oracle: (metamorphic) the argument dict recorded by the "
        "resolver / directive hook is identical across spellings; (reference) it equals reference CoerceArgumentValues and "
        "data equals the reference execution; (type monitor) every delivered dict conforms to the declared types; "
        "ill-typed constant literals and null for non-null are answered by whole-request validation refusal or by a failure "
        "of that field only, siblings intact. non-trivial = target with >=3 spellings executed; distinct by (SDL, target, "
        "value)") % TARGETS_PER_SCHEMA
ASSUMPTIONS = ["nested variables are generated with the item/field type of their position (ill-typed nested usage is C07's subject)"]
ANCHORS = [
    "tartiflette.coercers.arguments:coerce_arguments",
    "tartiflette.coercers.argument:argument_coercer",
    "tartiflette.coercers.literals.scalar_coercer:scalar_coercer",
    "tartiflette.coercers.literals.enum_coercer:enum_coercer",
    "tartiflette.coercers.literals.list_coercer:list_coercer",
    "tartiflette.coercers.literals.list_coercer:list_item_coercer",
    "tartiflette.coercers.literals.non_null_coercer:non_null_coercer",
    "tartiflette.coercers.literals.input_object_coercer:input_object_coercer",
    "tartiflette.coercers.literals.input_object_coercer:input_field_value_coercer",
    "tartiflette.coercers.literals.utils:is_missing_variable",
    "tartiflette.language.validators.query.all_variable_usages_are_allowed:AllVariableUsagesAreAllowed.validate",
]

OMIT = ("omit",)


def item_type(t):
    tt = t[1] if t[0] == "NN" else t
    return tt[1] if tt[0] == "L" else None


def spellings(rng, s, a, v):
    """Yields (label, literal-or-OMIT, vardefs, variables) spelling plain value v (or OMIT) for arg a."""
    t = a.type
    out = []
    if v is OMIT:
        out.append(("omitted", OMIT, [], {}))
        if not is_nn(t) or a.default is not NODEF:
            out.append(("absent-variable", ("var", "x"), [("x", nullable(t), NODEF)], {}))
        if a.default is not NODEF:
            out.append(("literal-equal-to-schema-default", a.default, [], {}))
            r = values.coerce_literal(s, t, a.default, None)
            if r[0] == "ok":
                pass
        return out
    lit = values.plain_to_literal(rng, s, t, v)
    out.append(("literal", lit, [], {}))
    out.append(("variable", ("var", "x"), [("x", t, NODEF)], {"x": v}))
    if v is not None:
        if not is_nn(t):
            out.append(("variable-nonnull-type", ("var", "x"), [("x", NN(t), NODEF)], {"x": v}))
        out.append(("variable-default", ("var", "x"), [("x", t, lit)], {}))
        out.append(("variable-default-overridden", ("var", "x"), [("x", t, values.gen_literal(rng, s, t, None, 1))], {"x": v}))
    else:
        out.append(("variable-default-null", ("var", "x"), [("x", t, ("null",))], {}))
    # a bare object literal standing for a one-element list, with a variable inside it
    itx = item_type(t)
    if itx is not None and isinstance(v, list) and len(v) == 1 and isinstance(v[0], dict) and v[0]:
        tdx = s.types.get(named_of(itx))
        itn = itx[1] if itx[0] == "NN" else itx
        if tdx is not None and tdx.kind == "INPUT_OBJECT" and itn[0] == "N":
            k = rng.choice(sorted(v[0]))
            ftx = tdx.field(k).type
            if v[0][k] is not None or not is_nn(ftx):
                olit = values.plain_to_literal(rng, s, itx, v[0])
                fields = [(n, (("var", "y") if n == k else x)) for n, x in olit[1]]
                out.append(("bare-object-with-nested-variable-for-list", ("object", fields), [("y", ftx, NODEF)], {"y": v[0][k]}))
    uv = I.unwrap_singletons(rng, t, v, p=1.0)
    if canon(uv) != canon(v):
        out.append(("literal-bare-element-for-list", values.plain_to_literal(rng, s, t, uv), [], {}))
        out.append(("variable-bare-element-for-list", ("var", "x"), [("x", t, NODEF)], {"x": uv}))
    # nested variable
    it = item_type(t)
    if it is not None and isinstance(v, list) and v and lit[0] == "list":
        i = rng.randrange(len(v))
        if v[i] is not None or not is_nn(it):
            items = list(lit[1])
            items[i] = ("var", "y")
            out.append(("nested-in-list", ("list", items), [("y", it, NODEF)], {"y": v[i]}))
            if not is_nn(it) and v[i] is None:
                out.append(("nested-in-list-absent", ("list", items), [("y", it, NODEF)], {}))
    td = s.types.get(named_of(t))
    tt = t[1] if t[0] == "NN" else t
    if tt[0] == "N" and td is not None and td.kind == "INPUT_OBJECT" and isinstance(v, dict) and v and lit[0] == "object":
        k = rng.choice(sorted(v))
        ft = td.field(k).type
        if v[k] is not None or not is_nn(ft):
            fields = [(n, (("var", "y") if n == k else x)) for n, x in lit[1]]
            out.append(("nested-in-object", ("object", fields), [("y", ft, NODEF)], {"y": v[k]}))
        absent = [f_ for f_ in td.fields if f_.name not in v and not is_nn(f_.type) and f_.default is NODEF]
        if absent:
            f_ = rng.choice(absent)
            out.append(("nested-in-object-absent-variable", ("object", list(lit[1]) + [(f_.name, ("var", "y"))]),
                        [("y", f_.type, NODEF)], {}))
    return out


def build(rng, s, target, label, lit, vardefs, variables):
    kind, f, a, dd = target[:4]
    doc = docgen.Doc()
    others = []
    argdefs = f.args if kind == "field" else dd.args
    for o in argdefs:
        if o is a:
            if lit is not OMIT:
                others.append((o.name, lit))
        elif is_nn(o.type) and o.default is NODEF:
            others.append((o.name, target[4][o.name]))
        elif o.name in target[4]:
            others.append((o.name, target[4][o.name]))
    fargs = others if kind == "field" else [(o.name, target[5][o.name]) for o in f.args if o.name in target[5]]
    sel = docgen.FieldSel(f.name, alias="t", args=fargs)
    if kind == "directive":
        sel.directives = [("vtrec", others)]
    if s.is_composite(named_of(f.type)):
        sel.selset = [docgen.FieldSel("__typename")]
    sib = docgen.FieldSel("__typename", alias="sib")
    twin = None
    if kind == "field" and "twin_" in variables:
        # the same field once more under another key: both calls must receive equal, independent argument values
        import copy as _copy
        twin = _copy.deepcopy(sel)
        twin.alias = "t2"
    vardefs = list(vardefs)
    if "z_" in variables:
        # an unrelated, supplied variable: the variables object is not empty even when the nested one is absent
        vardefs.append(("z_", NN(N("Boolean")), NODEF))
        sib.directives = [("include", [("if", ("var", "z_"))])]
    sels = [sel, sib] if rng.random() < 0.5 else [sib, sel]
    if twin is not None:
        sels.append(twin)
    doc.ops.append(docgen.Op("query", None, sels, list(vardefs)))
    doc.order = [("op", 0)]
    docgen.print_doc(doc, rng, {"multiline": False, "nl": "\n", "shorthand": True})
    return doc


def fixed_args(rng, s, argdefs, skip):
    out = {}
    for o in argdefs:
        if o is skip:
            continue
        if (is_nn(o.type) and o.default is NODEF) or rng.random() < 0.4:
            out[o.name] = values.gen_literal(rng, s, o.type, None, 1)
    return out


async def run_target(ctx, rng, s, b, target, v):
    st = ctx.stats
    kind, f, a, dd = target[:4]
    observed = []
    wseed = rng.randrange(10 ** 9)
    for label, lit, vardefs, variables in spellings(rng, s, a, v):
        if rng.random() < 0.5:
            variables = dict(variables, z_=True)
        twin = kind == "field" and rng.random() < 0.35
        doc = build(rng, s, target, label, lit, vardefs, dict(variables, twin_=True) if twin else variables)
        req = X.Request(doc, doc.text, doc.ops[0], variables, wseed, use_root=False, pass_opname=False)
        case = dict(req.describe(), sdl=b.sdl, spelling=label, target="%s %s.%s" % (kind, f.name, a.name))
        w_ref, w_eng = X.make_worlds(s, req)
        if twin and not vardefs:     # constants / defaults only: a variable's coerced value is legitimately one shared object
            w_eng.mutate_args = True     # the first call scribbles over what it received; the twin must not see it
            st.inc("twin-calls-with-scribbling-resolver")
        try:
            ref = X.run_reference(s, req, w_ref)
        except refexec.RefBug:
            st.inc("refbug")
            continue
        if ref.request_error:
            st.inc("ref-request-error")
            continue
        try:
            resp, _ = await X.run_engine(b.engine, s, req, w_eng)
        except Exception as e:  # noqa
            ctx.violation("execute-raised", repr(e), case)
            continue
        st.inc("evaluations")
        st.inc("spelling:" + label)
        ctx.log(label, doc.text, variables, "->", X.jdump(resp)[:600])
        c = X.refused(resp, w_eng)
        if c and ref.data is not None:
            ctx.violation("valid-spelling-refused", "%s: %s" % (label, c), case)
            continue
        d = X.first_diff(resp.get("data"), ref.data)
        if d:
            ctx.violation("data-differs", "spelling=%s at %s engine=%s reference=%s" % (label, list(d[0]), X.jdump(d[1])[:150], X.jdump(d[2])[:150]), case)
            continue
        if w_eng.anomalies:
            ctx.violation("delivered-value-of-other-type", "spelling=%s %r" % (label, w_eng.anomalies[:2]), case)
        if kind == "field":
            got = [c_[2] for c_ in w_eng.calls if c_[0] == "%s.%s" % (s.query, f.name)]
            exp = [c_[2] for c_ in ref.calls if c_[0] == "%s.%s" % (s.query, f.name)]
        else:
            got = [c_[2] for c_ in w_eng.dir_calls]
            given = doc.ops[0].selset[0].directives or doc.ops[0].selset[1].directives
            sel = [x for x in doc.ops[0].selset if x.alias == "t"][0]
            r = values.coerce_arguments(s, dd.args, sel.directives[0][1], values.coerce_variables(s, vardefs, variables)[1])
            exp = [canon(r[1])] if r[0] != "err" else []
            for dc in w_eng.dir_calls:
                bad = I.args_conform(s, dd.args, dc[3])
                if bad:
                    ctx.violation("delivered-value-of-other-type", "directive args: %s" % bad, case)
            if ref.errors or not exp:
                continue
        if ref.errors and kind == "field":
            # a field failed (e.g. a custom scalar's result coercion yields null at a non-null position): siblings that were
            # not started yet legitimately never run; what did run must still have received the reference's arguments
            same = bool(got) and all(g in exp for g in got) and len(got) <= len(exp)
        else:
            same = got == exp
        if not same:
            ctx.violation("arguments-differ-from-reference", "spelling=%s observed=%s reference=%s" % (label, got[:2], exp[:2]), case)
            continue
        if got:
            observed.append((label, got[0]))
    if len({o for _, o in observed}) > 1:
        ctx.violation("spellings-disagree", repr(observed)[:600], {"sdl": b.sdl, "target": "%s %s.%s" % (kind, f.name, a.name), "value": canon(v)})
    if len(observed) >= 3:
        st.distinct("nontrivial", (b.sdl, kind, f.name, a.name, canon(v)))
        st.sample({"target": "%s %s.%s: %s" % (kind, f.name, a.name, tstr(a.type)), "value": canon(v)[:200],
                   "spellings": [l for l, _ in observed], "delivered": observed[0][1][:300]}, limit=3)
    st.distinct("argument_types", tstr(a.type))


async def run_illtyped(ctx, rng, s, b, target):
    """Ill-typed constant literal / null for non-null: refusal or failure of that field only."""
    st = ctx.stats
    kind, f, a, dd = target[:4]
    if kind != "field":
        return
    v = values._gen_plain_nn(rng, s, a.type, 1)
    bad, note = I.mutate(rng, s, a.type, v)
    try:
        lit = json_to_literal(bad)
    except ValueError:
        return
    r = values.coerce_literal(s, a.type, lit, None)
    if r[0] != "err":
        return
    doc = build(rng, s, target, "ill-typed", lit, [], {})
    req = X.Request(doc, doc.text, doc.ops[0], {}, rng.randrange(10 ** 9), use_root=False, pass_opname=False)
    case = dict(req.describe(), sdl=b.sdl, note=note)
    w_ref, w_eng = X.make_worlds(s, req)
    try:
        ref = X.run_reference(s, req, w_ref)
        resp, _ = await X.run_engine(b.engine, s, req, w_eng)
    except refexec.RefBug:
        return
    except Exception as e:  # noqa
        ctx.violation("execute-raised", repr(e), case)
        return
    st.inc("evaluations")
    st.inc("ill-typed-literals")
    if X.refused(resp, w_eng):
        # the whole request was answered with data null and nothing ran: a refusal (whatever its wording)
        st.inc("ill-typed:validation-refusal")
        return
    st.inc("ill-typed:field-failure")
    if any(c_[0] == "%s.%s" % (s.query, f.name) for c_ in w_eng.calls):
        ctx.violation("resolver-ran-with-ill-typed-literal", "%s literal=%s delivered=%s" % (note, print_value(lit), [c_[2] for c_ in w_eng.calls][:2]), case)
        return
    d = X.first_diff(resp.get("data"), ref.data)
    if d:
        ctx.violation("ill-typed-literal-not-contained", "%s at %s engine=%s reference=%s" % (note, list(d[0]), X.jdump(d[1])[:150], X.jdump(d[2])[:150]), case)


async def run_null_into_nonnull(ctx, rng, s, b, target):
    """A nullable variable (allowed by its default / the position's default) carrying an explicit null
    into a non-null argument: that field fails, nothing else."""
    st = ctx.stats
    kind, f, a, dd = target[:4]
    if kind != "field" or not is_nn(a.type):
        return
    d = values.plain_to_literal(rng, s, a.type, values._gen_plain_nn(rng, s, a.type, 1))
    doc = build(rng, s, target, "null-variable", ("var", "x"), [("x", nullable(a.type), d)], {"x": None})
    req = X.Request(doc, doc.text, doc.ops[0], {"x": None}, rng.randrange(10 ** 9), use_root=False, pass_opname=False)
    case = dict(req.describe(), sdl=b.sdl)
    w_ref, w_eng = X.make_worlds(s, req)
    try:
        ref = X.run_reference(s, req, w_ref)
        resp, _ = await X.run_engine(b.engine, s, req, w_eng)
    except refexec.RefBug:
        return
    except Exception as e:  # noqa
        ctx.violation("execute-raised", repr(e), case)
        return
    st.inc("evaluations")
    st.inc("null-variable-into-nonnull")
    if any(c_[0] == "%s.%s" % (s.query, f.name) for c_ in w_eng.calls):
        ctx.violation("null-delivered-for-nonnull-argument", "delivered=%s" % [c_[2] for c_ in w_eng.calls][:2], case)
        return
    dd_ = X.first_diff(resp.get("data"), ref.data)
    if dd_:
        ctx.violation("null-for-nonnull-not-contained", "at %s engine=%s reference=%s" % (list(dd_[0]), X.jdump(dd_[1])[:150], X.jdump(dd_[2])[:150]), case)
    elif not resp.get("errors"):
        ctx.violation("null-for-nonnull-without-error", X.jdump(resp)[:300], case)


def nested_nonnull_site(rng, s, t):
    """(literal with $x at a NON-NULL nested position, type of that position) or None."""
    tt = t[1] if t[0] == "NN" else t
    if tt[0] == "L":
        it = tt[1]
        if it[0] == "NN":
            others = [values.plain_to_literal(rng, s, it, values._gen_plain_nn(rng, s, it, 2)) for _ in range(rng.randint(0, 2))]
            items = others + [("var", "x")]
            rng.shuffle(items)
            return ("list", items), it
        sub = nested_nonnull_site(rng, s, it)
        if sub:
            return ("list", [sub[0]]), sub[1]
        return None
    td = s.types.get(tt[1])
    if td is not None and td.kind == "INPUT_OBJECT":
        req = [f for f in td.fields if is_nn(f.type)]
        if req:
            f0 = rng.choice(req)
            fields = [(f0.name, ("var", "x"))] + [(f.name, values.plain_to_literal(rng, s, f.type, values._gen_plain_nn(rng, s, f.type, 2)))
                                                  for f in td.fields if f is not f0 and is_nn(f.type) and f.default is NODEF]
            return ("object", fields), f0.type
    return None


async def run_nested_null_into_nonnull(ctx, rng, s, b, target):
    """A nullable variable with a default, nested in a list / object literal at a non-null position, carrying an
    explicit null: that field fails; a literal null at the same place behaves the same."""
    st = ctx.stats
    kind, f, a, dd = target[:4]
    if kind != "field":
        return
    site = nested_nonnull_site(rng, s, a.type)
    if not site:
        return
    lit, pt = site
    d = values.plain_to_literal(rng, s, pt, values._gen_plain_nn(rng, s, pt, 2))
    variables = {"x": None, "z_": True} if rng.random() < 0.5 else {"x": None}
    doc = build(rng, s, target, "nested-null-variable", lit, [("x", nullable(pt), d)], variables)
    req = X.Request(doc, doc.text, doc.ops[0], variables, rng.randrange(10 ** 9), use_root=False, pass_opname=False)
    case = dict(req.describe(), sdl=b.sdl)
    w_ref, w_eng = X.make_worlds(s, req)
    try:
        ref = X.run_reference(s, req, w_ref)
        resp, _ = await X.run_engine(b.engine, s, req, w_eng)
    except refexec.RefBug:
        return
    except Exception as e:  # noqa
        ctx.violation("execute-raised", repr(e), case)
        return
    st.inc("evaluations")
    st.inc("nested-null-variable-into-nonnull")
    if X.refused(resp, w_eng) and ref.data is not None:
        ctx.violation("valid-spelling-refused", "nested null variable: %s" % (X.refused(resp, w_eng),), case)
        return
    if any(c_[0] == "%s.%s" % (s.query, f.name) for c_ in w_eng.calls):
        ctx.violation("null-delivered-for-nonnull-nested-position", "delivered=%s" % [c_[2] for c_ in w_eng.calls][:2], case)
        return
    dd_ = X.first_diff(resp.get("data"), ref.data)
    if dd_:
        ctx.violation("null-for-nonnull-not-contained", "at %s engine=%s reference=%s" % (list(dd_[0]), X.jdump(dd_[1])[:150], X.jdump(dd_[2])[:150]), case)


def json_to_literal(v):
    if v is None:
        return ("null",)
    if isinstance(v, bool):
        return ("bool", v)
    if isinstance(v, int):
        return ("int", v)
    if isinstance(v, float):
        if v != v or v in (float("inf"), float("-inf")):
            raise ValueError
        return ("float", repr(v))
    if isinstance(v, str):
        return ("string", v)
    if isinstance(v, list):
        return ("list", [json_to_literal(x) for x in v])
    if isinstance(v, dict):
        return ("object", [(k, json_to_literal(x)) for k, x in v.items()])
    raise ValueError


async def run_case(ctx, rng, index):
    so = smodel.GenOpts(p_args=0.9, n_inputs=(1, 3), n_scalars=(0, 2), n_enums=(1, 2), n_objects=(1, 2), n_interfaces=(0, 0),
                        n_unions=(0, 0), p_mutation=0.0)
    s = smodel.gen_schema(rng, so)
    # recording directive with 1-2 arguments of generated input types
    pool = [a for t in s.objects() for f in t.fields.values() for a in f.args]
    dargs = []
    for i, a in enumerate(rng.sample(pool, min(len(pool), rng.randint(1, 2)))):
        dargs.append(Arg("d%d" % i, a.type, a.default))
    dd = DirectiveDef("vtrec", ["FIELD"], dargs)
    s.directives["vtrec"] = dd
    from vt import harness
    b = harness.Bundle(s)
    await b.build()
    try:
        q = s.types[s.query]
        targets = []
        for f in q.fields.values():
            for a in f.args:
                targets.append(("field", f, a, None))
            for a in dd.args:
                targets.append(("directive", f, a, dd))
        rng.shuffle(targets)
        for kind, f, a, d_ in targets[:TARGETS_PER_SCHEMA]:
            fixed = fixed_args(rng, s, f.args if kind == "field" else dd.args, a)
            ffixed = fixed_args(rng, s, f.args, None) if kind == "directive" else {}
            target = (kind, f, a, d_, fixed, ffixed)
            r = rng.random()
            if r < 0.15 and (not is_nn(a.type) or a.default is not NODEF):
                v = OMIT
            elif r < 0.3 and not is_nn(a.type):
                v = None
            else:
                v = values._gen_plain_nn(rng, s, a.type, 0)
            await run_target(ctx, rng, s, b, target, v)
            await run_illtyped(ctx, rng, s, b, target)
            await run_null_into_nonnull(ctx, rng, s, b, target)
            await run_nested_null_into_nonnull(ctx, rng, s, b, target)
    finally:
        b.dispose()
