"""C13 — directive hooks wrap their target exactly once, nested in declaration order."""
import random
import re
from collections import Counter

from vt import boot, exec_common as X
from vt.smodel import esc_string

boot.init()

LEVEL = "exploration"
N_CASES = {"quick": 400, "thorough": 10000}
REQS_PER_SCHEMA = 10
MIN_NONTRIVIAL = 50
RULE = ("case = schema decorated with 0-3 instances of four tagging directives at every attachable location (scalar, enum, "
        "enum value, input object, input field, argument, field, object; part of a scalar's / enum's / input object's / object's "
        "directives arrive through a later directive-only `extend <kind> X @d` and therefore nest inside the definition's own) x %d requests supplying inputs as literals, "
        "variables, variables nested in object/list literals, one-item lists also as the bare item; the decorated object type "
        "reached through its concrete type, an interface, a union and interface lists; with 0-2 query-side directives per field node and merged "
        "field nodes each carrying their own. Every hook (on_post_input_coercion, on_argument_execution, on_field_execution, "
        "on_pre_output_coercion) appends the NON-COMMUTING tag <stage:directive:instance-argument> to the value it passes "
        "on (custom string scalar whose coerce_input/parse_literal/coerce_output also tag), so the strings received by "
        "resolvers and returned in data are the composition trace. Oracle: trace == fold of the documented pipeline over the "
        "model (first declared outermost, query-side outside schema-side, type-level input -> input-field/input-object -> "
        "argument -> field -> resolver -> type-level output -> serialisation; enum type-level vs value-level tags compared as "
        "an unordered group); per-instance call counters == tag occurrences expected (exactly once per governed value); "
        "literal and variable spellings give identical traces. non-trivial = request whose expected trace has >=3 tags; "
        "distinct by (SDL, query, variables)") % REQS_PER_SCHEMA
ASSUMPTIONS = ["null inputs are not generated (a tag cannot be attached to null)"]
ANCHORS = [
    "tartiflette.utils.directives:wraps_with_directives",
    "tartiflette.utils.directives:directive_executor",
    "tartiflette.types.helpers.get_directive_instances:compute_directive_nodes",
    "tartiflette.coercers.inputs.directives_coercer:input_directives_coercer",
    "tartiflette.coercers.literals.directives_coercer:literal_directives_coercer",
    "tartiflette.coercers.outputs.directives_coercer:output_directives_coercer",
    "tartiflette.coercers.argument:argument_coercer",
    "tartiflette.resolver.factory:resolve_field_value_or_error",
]
DNAMES = ["ta", "tb", "tc", "td"]
LOCS = "FIELD | FIELD_DEFINITION | ARGUMENT_DEFINITION | INPUT_FIELD_DEFINITION | SCALAR | INPUT_OBJECT | OBJECT | ENUM | ENUM_VALUE"
ENUM_VALUES = ["RED", "GREEN", "BLUE"]


def tag_value(v, t):
    if not t:
        return v
    if isinstance(v, str):
        return v + t
    if isinstance(v, dict):
        d = dict(v)
        d["_t"] = d.get("_t", "") + t
        return d
    if isinstance(v, list):
        return [tag_value(x, t) for x in v]
    return v


class TaggerHooks:
    """The hooks live in a base class: directive implementations may inherit them (mixins, shared bases)."""

    def _t(self, kind, dargs, ctx):
        inst = dargs.get("t")
        ctx["log"].append((kind, self.name, inst))
        extra = "+" + "|".join(map(str, dargs["ts"])) if dargs.get("ts") is not None else ""
        return "<%s:%s:%s%s>" % (kind, self.name, inst, extra)

    async def on_post_input_coercion(self, dargs, nxt, parent_node, value, ctx):
        r = await nxt(parent_node, value, ctx)
        return tag_value(r, self._t("I", dargs, ctx))

    async def on_argument_execution(self, dargs, nxt, parent_node, arg_def, arg_node, value, ctx):
        r = await nxt(parent_node, arg_def, arg_node, value, ctx)
        return tag_value(r, self._t("A", dargs, ctx))

    async def on_field_execution(self, dargs, nxt, parent, args, ctx, info):
        r = await nxt(parent, args, ctx, info)
        t = self._t("F", dargs, ctx)
        return r + t if isinstance(r, str) and str(info.return_type).strip("!") == "Str" else r

    async def on_pre_output_coercion(self, dargs, nxt, value, ctx, info):
        r = await nxt(value, ctx, info)
        t = self._t("O", dargs, ctx)
        if str(info.return_type).strip("!") == "Color":
            ctx["enum_out"].append(t)   # an enum result must stay a declared value: counted, not traced
            return r
        return tag_value(r, t)


class Tagger(TaggerHooks):
    def __init__(self, name):
        self.name = name


class OwnTagger:
    """Same hooks, defined in the class's own body."""

    def __init__(self, name):
        self.name = name
    _t = TaggerHooks._t
    on_post_input_coercion = TaggerHooks.on_post_input_coercion
    on_argument_execution = TaggerHooks.on_argument_execution
    on_field_execution = TaggerHooks.on_field_execution
    on_pre_output_coercion = TaggerHooks.on_pre_output_coercion


class StrScalar:
    def coerce_output(self, v):
        return "out(%s)" % v

    def coerce_input(self, v):
        if not isinstance(v, str):
            raise TypeError("Str needs str")
        return "in(%s)" % v

    def parse_literal(self, ast):
        from tartiflette.constants import UNDEFINED_VALUE
        from tartiflette.language.ast import StringValueNode
        return "in(%s)" % ast.value if isinstance(ast, StringValueNode) else UNDEFINED_VALUE


def render(v):
    if isinstance(v, dict):
        return "{" + ";".join("%s=%s" % (k, render(v[k])) for k in sorted(v)) + "}"
    if isinstance(v, list):
        return "[" + "|".join(render(x) for x in v) + "]"
    return str(v)


class Model:
    """Directive placements.  Each usage is (directive name, instance id)."""

    def __init__(self, rng):
        self.n = 0
        self.rng = rng
        self.enum_ids = set()
        u = self.usages
        self.str_dirs = u()
        self.color_dirs = u(enum=True)
        self.value_dirs = {v: u(enum=True) for v in ENUM_VALUES}
        self.in_dirs = u()
        self.in_fields = {"s": u(), "c": u(), "n": u()}
        self.obj_dirs = u()
        self.obj_t_dirs = u()
        self.echo_dirs = u()
        self.echo_args = {"x": u(), "i": u(), "c": u(), "l": u()}
        self.color_arg = u()
        # some of a type's directives arrive through a directive-only `extend <kind> X @d` placed after the definition: they are
        # declared later, so they nest inside the ones on the definition (drawn from a private stream: the placements above stay)
        r2 = random.Random(rng.random())
        self.ext_from = {k: (r2.randrange(len(d) + 1) if len(d) >= 1 and r2.random() < 0.5 else len(d))
                         for k, d in (("Str", self.str_dirs), ("Color", self.color_dirs), ("In", self.in_dirs), ("Obj", self.obj_dirs))}
        self.s_default = rng.random() < 0.5       # `s: Str = "dflt"`: hooks must also govern the default of an omitted field
        self.seq_lists = rng.random() < 0.5       # engine cooked with coerce_list_concurrently=False

    def usages(self, enum=False):
        out = []
        names = list(DNAMES)
        self.rng.shuffle(names)
        for name in names[: self.rng.choice([0, 0, 1, 1, 2, 3])]:
            self.n += 1
            inst = "k%d" % self.n
            out.append((name, inst))
            if enum:
                self.enum_ids.add(inst)
        return out

    @staticmethod
    def p(dirs):
        return "".join(' @%s(t: "%s")' % d for d in dirs)

    def sdl(self):
        def p(dirs):
            # directives of the four extensible types: only the part that stays on the definition
            for k, d in (("Str", self.str_dirs), ("Color", self.color_dirs), ("In", self.in_dirs), ("Obj", self.obj_dirs)):
                if dirs is d:
                    return self.p(d[:self.ext_from[k]])
            return self.p(dirs)
        ext = ["extend %s %s%s" % (kw, k, self.p(d[self.ext_from[k]:]))
               for kw, k, d in (("scalar", "Str", self.str_dirs), ("enum", "Color", self.color_dirs), ("input", "In", self.in_dirs),
                                ("type", "Obj", self.obj_dirs)) if d[self.ext_from[k]:]]
        return "\n".join(
            ["directive @%s(t: String, ts: [String]) on %s" % (n, LOCS) for n in DNAMES] + [
                "scalar Str%s" % p(self.str_dirs),
                "enum Color%s { %s }" % (p(self.color_dirs), " ".join(v + p(self.value_dirs[v]) for v in ENUM_VALUES)),
                "input In%s { s: Str%s%s c: Color%s n: In%s }" % (p(self.in_dirs), ' = "dflt"' if self.s_default else "", p(self.in_fields["s"]),
                                                              p(self.in_fields["c"]), p(self.in_fields["n"])),
                "interface Node { _t: Str }",
                "type Obj implements Node%s { _t: Str%s }" % (p(self.obj_dirs), p(self.obj_t_dirs)),
                "union U = Obj",
                "type Query { node: Node u: U nodes: [Node] echo(x: Str%s, i: In%s, c: Color%s, l: [Str]%s): Str%s echoColor(c: Color%s): Color obj: Obj strs: [Str] }" % (
                    p(self.echo_args["x"]), p(self.echo_args["i"]), p(self.echo_args["c"]), p(self.echo_args["l"]), p(self.echo_dirs),
                    p(self.color_arg)),
            ] + ext)


def T(kind, dirs):
    return "".join("<%s:%s:%s%s>" % (kind, d[0], d[1], ("+" + "|".join(d[2])) if len(d) > 2 else "") for d in reversed(dirs))


class Fold:
    """Expected traces per the documented pipeline, and the expected number of invocations of every hook instance."""

    def __init__(self, m):
        self.m = m
        self.calls = Counter()

    def TT(self, kind, dirs):
        for d in dirs:
            self.calls[d[1]] += 1
        return T(kind, dirs)

    def in_str(self, v):
        return "in(%s)" % v + self.TT("I", self.m.str_dirs)

    def in_color(self, v):
        return v + self.TT("I", self.m.value_dirs[v]) + self.TT("I", self.m.color_dirs)

    def in_obj(self, d):
        out = {}
        items = list(d.items())
        if self.m.s_default and "s" not in d:
            items.append(("s", "dflt"))
        for k, v in items:
            if k == "s":
                val = self.in_str(v)
            elif k == "c":
                val = self.in_color(v)
            else:
                val = self.in_obj(v)
            out[k] = tag_value(val, self.TT("I", self.m.in_fields[k]))
        t = self.TT("I", self.m.in_dirs)
        return tag_value(out, t) if self.m.in_dirs else out

    def echo_args(self, args):
        out = {}
        for k, v in args.items():
            if k == "x":
                val = self.in_str(v)
            elif k == "i":
                val = self.in_obj(v)
            elif k == "c":
                val = self.in_color(v)
            else:
                val = [self.in_str(x) for x in v]
            out[k] = tag_value(val, self.TT("A", self.m.echo_args[k]))     # one call, even for a list value
        return out

    def echo(self, args, query_dirs):
        r = "R[%s]" % render(self.echo_args(args))
        return "out(%s)" % (r + self.TT("F", self.m.echo_dirs) + self.TT("F", query_dirs) + self.TT("O", self.m.str_dirs))

    def echo_color(self, v):
        received = tag_value(self.in_color(v), self.TT("A", self.m.color_arg))
        return received, v, self.TT("O", self.m.color_dirs) + self.TT("O", self.m.value_dirs[v])

    def obj_t(self):
        return "out(%s)" % (self.TT("O", self.m.obj_dirs) + self.TT("F", self.m.obj_t_dirs) + self.TT("O", self.m.str_dirs))

    def strs(self, items):
        out = []
        for x in items:
            t = self.TT("O", self.m.str_dirs)      # type-level output hooks govern every item, null ones included
            out.append(None if x is None else "out(%s)" % (x + t))
        return out


TAG_RE = re.compile(r"<[IAFO]:[a-z]+:(k\d+)(?:\+[^>]*)?>")


def canon_trace(s, enum_ids):
    """Sort every maximal run of consecutive enum-level tags (type-level vs value-level order is not specified)."""
    if not isinstance(s, str):
        return s
    out, run, pos = [], [], 0
    for mt in TAG_RE.finditer(s):
        if mt.start() != pos and run:
            out.append("".join(sorted(run)))
            run = []
        out.append(s[pos:mt.start()])
        if mt.group(1) in enum_ids:
            run.append(mt.group(0))
        else:
            if run:
                out.append("".join(sorted(run)))
                run = []
            out.append(mt.group(0))
        pos = mt.end()
    if run:
        out.append("".join(sorted(run)))
    out.append(s[pos:])
    return "".join(out)


def gen_in(rng, depth=0):
    d = {}
    if rng.random() < 0.7:
        d["s"] = rng.choice(["v", "w", ""])
    if rng.random() < 0.6:
        d["c"] = rng.choice(ENUM_VALUES)
    if depth < 2 and rng.random() < 0.3:
        d["n"] = gen_in(rng, depth + 1)
    return d


def lit(v):
    if isinstance(v, dict):
        return "{" + ", ".join("%s: %s" % (k, lit(x) if k != "c" else x) for k, x in v.items()) + "}"
    if isinstance(v, list):
        return "[" + ", ".join(lit(x) for x in v) + "]"
    return esc_string(v)


def gen_request(rng, m):
    """Returns (query, runs); each run = (variables, expected data, expected received, enum-out tags, expected call Counter)."""
    sels, vardefs, variables = [], [], {}
    plan = []           # ("echo", alias, args, query dirs) | ("color", alias, value) | ("obj", alias) | ("strs", alias, items)
    revar = []          # variables feeding directive arguments: re-bound for the second execution
    nv = [0]

    def spell(name, typ, v, as_enum=False):
        r = rng.random()
        if r < 0.45:
            nv[0] += 1
            vn = "v%d" % nv[0]
            vardefs.append("$%s: %s" % (vn, typ))
            # a one-item list may be supplied as the bare item (input coercion wraps it); hooks govern it all the same
            variables[vn] = v[0] if typ == "[Str]" and len(v) == 1 and rng.random() < 0.6 else v
            return "$" + vn
        if typ == "In" and isinstance(v, dict) and v and r < 0.7:
            k = rng.choice(sorted(v))
            nv[0] += 1
            vn = "v%d" % nv[0]
            vardefs.append("$%s: %s" % (vn, {"s": "Str", "c": "Color", "n": "In"}[k]))
            variables[vn] = v[k]
            return "{" + ", ".join("%s: %s" % (kk, ("$" + vn) if kk == k else (lit(x) if kk != "c" else x)) for kk, x in v.items()) + "}"
        if typ == "[Str]" and v and r < 0.7:
            i = rng.randrange(len(v))
            nv[0] += 1
            vn = "v%d" % nv[0]
            vardefs.append("$%s: Str" % vn)
            variables[vn] = v[i]
            return "[" + ", ".join(("$" + vn) if j == i else lit(x) for j, x in enumerate(v)) + "]"
        if typ == "[Str]" and len(v) == 1 and rng.random() < 0.5:
            return lit(v[0])
        return v if as_enum else lit(v)

    for j in range(rng.randint(1, 3)):
        kind = rng.choice(["echo", "echo", "echo", "color", "obj", "obj", "strs"])
        alias = "f%d" % j
        if kind == "echo":
            args = {}
            if rng.random() < 0.7:
                args["x"] = rng.choice(["v", "hello", ""])
            if rng.random() < 0.5:
                args["i"] = gen_in(rng)
            if rng.random() < 0.4:
                args["c"] = rng.choice(ENUM_VALUES)
            if rng.random() < 0.4:
                args["l"] = [rng.choice(["a", "b"]) for _ in range(rng.randint(1, 3))]
            text = ", ".join("%s: %s" % (k, spell(k, {"x": "Str", "i": "In", "c": "Color", "l": "[Str]"}[k], v, as_enum=(k == "c")))
                             for k, v in args.items())
            call = "echo" + ("(%s)" % text if text else "")
            nodes = rng.choice([1, 1, 2])
            qdirs_all, parts = [], []
            for _ in range(nodes):
                qd, texts = [], []
                names = list(DNAMES)
                rng.shuffle(names)
                for name in names[: rng.choice([0, 1, 2])]:
                    m.n += 1
                    inst = "k%d" % m.n
                    if rng.random() < 0.4:
                        nv[0] += 1
                        vn = "v%d" % nv[0]
                        vardefs.append("$%s: String" % vn)
                        variables[vn] = rng.choice(["x", "y", "z"])
                        revar.append(vn)
                        qd.append((name, inst, ["p", ("var", vn)]))
                        texts.append(' @%s(t: "%s", ts: ["p", $%s])' % (name, inst, vn))
                    else:
                        qd.append((name, inst))
                        texts.append(' @%s(t: "%s")' % (name, inst))
                qdirs_all.extend(qd)
                parts.append("%s: %s%s" % (alias, call, "".join(texts)))
            sels.append(" ".join(parts))
            plan.append(("echo", alias, args, qdirs_all))
        elif kind == "color":
            v = rng.choice(ENUM_VALUES)
            sels.append("%s: echoColor(c: %s)" % (alias, spell("c", "Color", v, as_enum=True)))
            plan.append(("color", alias, v))
        elif kind == "obj":
            # the object reached through its concrete type, through an interface, through a union, or as interface list items:
            # its type-level output hooks govern the value exactly once on every route
            route = rng.choice(["obj { _t }", "node { _t }", "u { ... on Obj { _t } }", "node { ... on Obj { _t } }", "nodes { _t }"])
            sels.append("%s: %s" % (alias, route))
            plan.append(("obj", alias, route.startswith("nodes")))
        else:
            sels.append("%s: strs" % alias)
            plan.append(("strs", alias, None))
    frag = ""
    if rng.random() < 0.25:
        frag = " fragment Fr on Query { %s }" % " ".join(sels)
        sels = ["...Fr", "... on Query { ...Fr }"] if rng.random() < 0.5 else ["...Fr", "...Fr"]
    q = "query%s { %s }%s" % ("(" + ", ".join(vardefs) + ")" if vardefs else "", " ".join(sels), frag)
    list_items = [rng.choice(["a", "b", None]) for _ in range(rng.randint(0, 4))]

    def expect_for(vals):
        fold = Fold(m)
        exp, rec, enum_out = {}, {}, []
        for item in plan:
            if item[0] == "echo":
                _, alias, args, qd = item
                bound = [(d[0], d[1], [x if isinstance(x, str) else vals[x[1]] for x in d[2]]) if len(d) > 2 else d for d in qd]
                exp[alias] = fold.echo(args, bound)
            elif item[0] == "color":
                r_, out, eo = fold.echo_color(item[2])
                exp[item[1]] = out
                rec[item[1]] = r_
                enum_out.append(eo)
            elif item[0] == "obj":
                exp[item[1]] = [{"_t": fold.obj_t()}, {"_t": fold.obj_t()}] if item[2] else {"_t": fold.obj_t()}
            else:
                exp[item[1]] = fold.strs(list_items)
        return exp, rec, "".join(enum_out), fold.calls
    runs = [(variables,) + expect_for(variables)]
    if revar:
        v2 = dict(variables)
        for vn in revar:
            v2[vn] = v2[vn] + "2"
        runs.append((v2,) + expect_for(v2))
    return q, runs, list_items


async def build(m):
    from tartiflette import Directive, Engine, Resolver, Scalar
    name = boot.fresh_schema_name("c13")
    for k_, n in enumerate(DNAMES):
        # two implementations inherit their hooks from a base class, two define them in their own body
        Directive(n, schema_name=name)((Tagger if k_ % 2 == 0 else OwnTagger)(n))
    Scalar("Str", schema_name=name)(StrScalar())

    async def echo(parent, args, ctx, info):
        ctx["resolver_calls"].append("echo")
        return "R[%s]" % render(args)

    async def echo_color(parent, args, ctx, info):
        ctx["resolver_calls"].append("echoColor")
        ctx["received"]["/".join(map(str, info.path.as_list()))] = args.get("c")
        return TAG_RE.sub("", args.get("c"))

    async def obj(parent, args, ctx, info):
        return {"_t": ""}

    async def nodes(parent, args, ctx, info):
        return [{"_t": "", "_typename": "Obj"}, {"_t": "", "_typename": "Obj"}]

    async def node(parent, args, ctx, info):
        return {"_t": "", "_typename": "Obj"}

    async def strs(parent, args, ctx, info):
        return list(ctx["list_items"])
    Resolver("Query.echo", schema_name=name)(echo)
    Resolver("Query.echoColor", schema_name=name)(echo_color)
    Resolver("Query.obj", schema_name=name)(obj)
    Resolver("Query.strs", schema_name=name)(strs)
    Resolver("Query.node", schema_name=name)(node)
    Resolver("Query.u", schema_name=name)(node)
    Resolver("Query.nodes", schema_name=name)(nodes)
    e = Engine(m.sdl(), schema_name=name, **({"coerce_list_concurrently": False} if m.seq_lists else {}))
    await e.cook()
    return e, name


async def run_case(ctx, rng, index):
    st = ctx.stats
    m = Model(rng)
    sdl = m.sdl()
    if "\nextend " in sdl:
        st.inc("schemas_with_directives_arriving_through_extensions")
        st.inc("extension_directive_instances", sum(len(d) - m.ext_from[k] for k, d in (
            ("Str", m.str_dirs), ("Color", m.color_dirs), ("In", m.in_dirs), ("Obj", m.obj_dirs))))
    try:
        e, name = await build(m)
    except Exception as ex:  # noqa
        ctx.violation("build-failed", repr(ex)[:300], {"sdl": sdl})
        return
    try:
        for _ in range(REQS_PER_SCHEMA):
            q, runs, list_items = gen_request(rng, m)
            for variables, expected, received, enum_out, calls in runs:
                await run_one(ctx, m, e, sdl, q, variables, expected, received, enum_out, calls, list_items)
            st.sample({"sdl": sdl[:900], "query": q, "variables": runs[0][0], "expected": runs[0][1]}, limit=2)
        await null_spellings(ctx, rng, m, e, sdl)
    finally:
        boot.forget_schema(name)


async def run_one(ctx, m, e, sdl, q, variables, expected, received, enum_out, calls, list_items):
    st = ctx.stats
    if True:
        if True:
            case = {"sdl": sdl, "query": q, "variables": variables}
            c = {"log": [], "resolver_calls": [], "received": {}, "enum_out": [], "list_items": list_items}
            try:
                resp = await e.execute(q, variables=variables, context=c)
            except Exception as ex:  # noqa
                ctx.violation("execute-raised", repr(ex), case)
                return
            st.inc("evaluations")
            st.inc("hook_calls", len(c["log"]))
            ctx.log(q, variables)
            ctx.log("engine  :", X.jdump(resp)[:1500])
            ctx.log("expected:", X.jdump(expected)[:1500])
            if resp.get("errors"):
                ctx.violation("unexpected-errors", X.jdump(resp["errors"])[:300], case)
                return
            data = resp["data"]
            ok = True
            for k, exp in expected.items():
                got = data.get(k)
                if isinstance(exp, dict):
                    got, exp = (got or {}).get("_t"), exp["_t"]
                if isinstance(exp, list):
                    got, exp = repr(got), repr(exp)
                if canon_trace(got, m.enum_ids) != canon_trace(exp, m.enum_ids):
                    ctx.violation("composition-trace-differs", "%s: engine=%s expected=%s" % (k, got, exp), case)
                    ok = False
            for k, exp in received.items():
                got = c["received"].get(k)
                if canon_trace(got, m.enum_ids) != canon_trace(exp, m.enum_ids):
                    ctx.violation("resolver-received-trace-differs", "%s: resolver got %s expected %s" % (k, got, exp), case)
                    ok = False
            # exactly-once: every hook instance is invoked as often as the fold says (null values and list arguments included)
            if sorted(TAG_RE.findall(enum_out)) != sorted(TAG_RE.findall("".join(c["enum_out"]))):
                ctx.violation("enum-output-hooks-differ", "ran %s expected %s" % (c["enum_out"], enum_out), case)
            want = calls
            have = Counter(inst for _, _, inst in c["log"])
            if ok and have != want:
                more = {k: (have[k], want.get(k, 0)) for k in have if have[k] > want.get(k, 0)}
                less = {k: (have.get(k, 0), want[k]) for k in want if have.get(k, 0) < want[k]}
                ctx.violation("hook-invocation-count", "invoked more often than governed values {inst: (ran, expected)}: %s; less often: %s" % (more, less), case)
            if sum(want.values()) >= 3:
                st.distinct("nontrivial", (sdl, q, X.jdump(variables)))


async def null_spellings(ctx, rng, m, e, sdl):
    """The same input containing nulls, spelled as literals / through variables / nested variables, must run the same
    hook instances (a tag cannot be attached to null, so the hook LOG is compared)."""
    st = ctx.stats
    obj = {"s": None if rng.random() < 0.6 else "v", "c": rng.choice(ENUM_VALUES + [None])}
    if rng.random() < 0.4:
        obj["n"] = {"s": None}
    lst = [rng.choice(["a", None]) for _ in range(rng.randint(1, 3))]

    def lit_null(v):
        if v is None:
            return "null"
        if isinstance(v, dict):
            return "{" + ", ".join("%s: %s" % (k, (x if (k == "c" and x is not None) else lit_null(x))) for k, x in v.items()) + "}"
        if isinstance(v, list):
            return "[" + ", ".join(lit_null(x) for x in v) + "]"
        return esc_string(v)
    spellings = [
        ("literal", "{ echo(i: %s, l: %s) }" % (lit_null(obj), lit_null(lst)), {}),
        ("variables", "query($i: In, $l: [Str]) { echo(i: $i, l: $l) }", {"i": obj, "l": lst}),
    ]
    k = rng.choice(sorted(obj))
    kt = {"s": "Str", "c": "Color", "n": "In"}[k]
    nested_obj = "{" + ", ".join("%s: %s" % (kk, "$x" if kk == k else (x if (kk == "c" and x is not None) else lit_null(x))) for kk, x in obj.items()) + "}"
    i0 = rng.randrange(len(lst))
    nested_lst = "[" + ", ".join("$y" if j == i0 else lit_null(x) for j, x in enumerate(lst)) + "]"
    spellings.append(("nested-variables", "query($x: %s, $y: Str) { echo(i: %s, l: %s) }" % (kt, nested_obj, nested_lst), {"x": obj[k], "y": lst[i0]}))
    logs = []
    for label, q, variables in spellings:
        c = {"log": [], "resolver_calls": [], "received": {}, "enum_out": [], "list_items": []}
        case = {"sdl": sdl, "query": q, "variables": variables}
        try:
            resp = await e.execute(q, variables=variables, context=c)
        except Exception as ex:  # noqa
            ctx.violation("execute-raised", repr(ex), case)
            return
        st.inc("evaluations")
        st.inc("null_spelling_runs")
        if resp.get("errors"):
            ctx.violation("unexpected-errors", "%s: %s" % (label, X.jdump(resp["errors"])[:300]), case)
            return
        logs.append((label, sorted(c["log"], key=repr), resp["data"], q, variables))
    base = logs[0]
    for other in logs[1:]:
        if other[1] != base[1]:
            only_a = [x for x in base[1] if x not in other[1]]
            only_b = [x for x in other[1] if x not in base[1]]
            ctx.violation("hooks-differ-between-literal-and-variable", "%s ran %s extra, %s ran %s extra; queries: %s | %s %s" % (
                base[0], only_a[:4], other[0], only_b[:4], base[3], other[3], other[4]), {"sdl": sdl, "query": other[3], "variables": other[4]})
