"""C04 — variable values are coerced exactly as the specification prescribes."""
import re
from collections import Counter

from vt import docgen, exec_common as X, inputs_common as I, refexec, smodel, values
from vt.smodel import NODEF, N, NN, is_nn, named_of, nullable, tstr
from vt.values import canon

LEVEL = "exploration"
N_CASES = {"quick": 480, "thorough": 12000}
DOCS_PER_SCHEMA = 4
ASSIGNMENTS = 14
MIN_NONTRIVIAL = 50
RULE = ("case = random schema whose fields take arguments of every input type (built-in and custom scalars, enums, "
        "recursive/defaulted input objects, list/non-null nestings to depth 3) x %d echo documents feeding 1-4 variables "
        "(declared with the position type, its non-null version, or nullable-with-default; defaults valid, null or absent) "
        "into arguments x %d variable assignments: valid ones (incl. bare elements for one-element lists), and hostile ones "
        "made by replacing ONE position of a valid value tree by a wrong/borderline kind (bool/str/float/huge for numbers, "
        "numbers for strings, unknown/missing-required fields, null at non-null, scalars for lists, dicts for lists...), "
        "plus absent / explicit null / undeclared extras. Oracle: three-valued reference CoerceVariableValues. must-reject "
        "=> data null, non-empty errors, ZERO resolver calls, every offending variable named or located by an error; "
        "must-accept => the argument dicts recorded by resolvers equal the reference's (absent vs null vs default, list "
        "wrapping at every level, input-object defaults) and data equals the reference; either => both accepted, value "
        "pinned if accepted; the very same variables object sent a second time is answered identically. non-trivial = assignment with >=1 variable whose value is a container or hostile; distinct by "
        "(SDL, document, variables)") % (DOCS_PER_SCHEMA, ASSIGNMENTS)
ASSUMPTIONS = ["variable default values are valid constants (ill-typed defaults are validation matters: C07)"]
ANCHORS = [
    "tartiflette.coercers.variables:variable_coercer",
    "tartiflette.coercers.variables:coerce_variables",
    "tartiflette.coercers.inputs.scalar_coercer:scalar_coercer",
    "tartiflette.coercers.inputs.enum_coercer:enum_coercer",
    "tartiflette.coercers.inputs.list_coercer:list_coercer",
    "tartiflette.coercers.inputs.non_null_coercer:non_null_coercer",
    "tartiflette.coercers.inputs.input_object_coercer:input_object_coercer",
    "tartiflette.coercers.inputs.input_object_coercer:input_field_value_coercer",
    "tartiflette.execution.context:build_execution_context",
    "tartiflette.execution.nodes.variable_definition:variable_definition_node_to_executable",
]


def build_doc(rng, s):
    """query Q($v..) { k: field(arg: $v ...) ... } over fields that take arguments."""
    cands = []
    q = s.types[s.query]
    for f in q.fields.values():
        if f.args:
            cands.append(f)
    if not cands:
        return None
    doc = docgen.Doc()
    sels, vardefs = [], []
    for i, f in enumerate(rng.sample(cands, min(len(cands), rng.randint(1, 3)))):
        args = []
        for a in f.args:
            r = rng.random()
            has_def = a.default is not NODEF
            if r < 0.75:
                name = "v%d" % len(vardefs)
                t, d = a.type, NODEF
                rr = rng.random()
                if rr < 0.2 and not is_nn(t):
                    t = NN(t)
                elif rr < 0.45 and is_nn(t):
                    t = nullable(t)
                    d = values.plain_to_literal(rng, s, a.type, values._gen_plain_nn(rng, s, a.type, 1))
                elif rr < 0.65:
                    d = values.gen_literal(rng, s, t, None, 1)
                elif rr < 0.7 and not is_nn(t):
                    d = ("null",)
                vardefs.append((name, t, d))
                args.append((a.name, ("var", name)))
            elif r < 0.9 or (is_nn(a.type) and not has_def):
                args.append((a.name, values.gen_literal(rng, s, a.type, None, 1)))
        sel = docgen.FieldSel(f.name, alias="k%d" % i, args=args)
        if s.is_composite(named_of(f.type)):
            sel.selset = [docgen.FieldSel("__typename")]
        sels.append(sel)
    if not vardefs:
        return None
    doc.ops.append(docgen.Op("query", rng.choice([None, "Q"]), sels, vardefs))
    doc.order = [("op", 0)]
    docgen.print_doc(doc, rng, docgen.random_style(rng))
    return doc


def gen_assignment(rng, s, op, hostile):
    out, notes = {}, []
    for n, t, d in op.vardefs:
        required = is_nn(t) and d is NODEF
        r = rng.random()
        if r < 0.12 and not (required and not hostile):
            notes.append("%s:absent" % n)
            continue
        v = values.gen_plain(rng, s, t, 0)
        if r < 0.2 and (hostile or not is_nn(t)):
            v = None
            notes.append("%s:null" % n)
        else:
            v = I.unwrap_singletons(rng, t, v)
        out[n] = v
    if hostile and out:
        n = rng.choice(sorted(out))
        t = [x[1] for x in op.vardefs if x[0] == n][0]
        out[n], d = I.mutate(rng, s, t, out[n])
        notes.append("%s:%s" % (n, d))
    if rng.random() < 0.1:
        out["undeclared_extra_"] = rng.choice([1, None, {"a": [1]}])
    return out, notes


def named_by_errors(resp, op, name):
    for e in resp.get("errors") or []:
        if not isinstance(e, dict):
            continue
        # the variable's name as a whole word (with or without '$'): '$v1' is not named by an error about '$v10'
        if re.search(r"(?<![A-Za-z0-9_])\$?%s(?![A-Za-z0-9_])" % re.escape(name), str(e.get("message"))):
            return True
        span = op.vardef_spans.get(name)
        for loc in e.get("locations") or []:
            if span and isinstance(loc, dict) and docgen.in_span(span, loc.get("line"), loc.get("column")):
                return True
    return False


async def check(ctx, s, engine, req, sdl, notes):
    st = ctx.stats
    case = dict(req.describe(), sdl=sdl, notes=notes)
    w_ref, w_eng = X.make_worlds(s, req)
    try:
        ref = X.run_reference(s, req, w_ref)
    except refexec.RefBug:
        st.inc("refbug")
        return
    try:
        resp, _ = await X.run_engine(engine, s, req, w_eng)
    except Exception as e:  # noqa
        ctx.violation("execute-raised", repr(e), case)
        return
    st.inc("evaluations")
    ctx.log("variables:", req.variables, notes)
    ctx.log("engine:", X.jdump(resp)[:2000])
    ctx.log("reference:", ref.request_error, X.jdump(ref.data)[:1000], getattr(ref, "var_status", None))
    env = X.check_envelope(resp)
    if env:
        ctx.violation("envelope", env, case)
        return
    refused = resp["data"] is None and bool(resp.get("errors")) and not w_eng.calls
    if ref.request_error:
        st.inc("must-reject")
        if w_eng.calls:
            ctx.violation("resolver-ran-on-invalid-variables", "%d calls; offenders=%s notes=%s" % (len(w_eng.calls), ref.request_error[1], notes), case)
            return
        if not refused:
            ctx.violation("invalid-variables-accepted", "offenders=%s notes=%s response=%s" % (ref.request_error[1], notes, X.jdump(resp)[:300]), case)
            return
        for n in ref.request_error[1]:
            if not named_by_errors(resp, req.op, n):
                ctx.violation("offending-variable-not-reported", "$%s notes=%s errors=%s" % (n, notes, X.jdump(resp.get("errors"))[:400]), case)
        return
    either = ref.var_status == "either"
    if refused and either:
        st.inc("either-rejected")
        return
    if refused and not ref.errors:
        ctx.violation("valid-variables-refused", "notes=%s variables=%s errors=%s" % (notes, canon(req.variables)[:200], X.jdump(resp.get("errors"))[:400]), case)
        return
    st.inc("either-accepted" if either else "must-accept")
    d = X.first_diff(resp["data"], ref.data)
    if d:
        ctx.violation("data-differs", "notes=%s at %s engine=%s reference=%s" % (notes, list(d[0]), X.jdump(d[1])[:150], X.jdump(d[2])[:150]), case)
        return
    eng_calls = Counter((c[0], c[1], c[2]) for c in w_eng.calls if not c[0].startswith("default:"))
    if eng_calls != Counter(ref.calls) and not ref.errors:
        extra = list((eng_calls - Counter(ref.calls)).items())[:2]
        missing = list((Counter(ref.calls) - eng_calls).items())[:2]
        ctx.violation("observed-arguments-differ", "notes=%s engine-only=%s reference-only=%s" % (notes, extra, missing), case)
        return
    if w_eng.anomalies:
        ctx.violation("resolver-anomaly", repr(w_eng.anomalies[:2]), case)
        return
    # the caller's variables object is an INPUT: sending the very same object again must be coerced the same way again
    # (values written back into it by the first coercion would be coerced twice: in(in(x)) for a custom scalar, a
    # stringified ID for an Int position of another operation, ...)
    if any(isinstance(v, (list, dict)) for v in (req.variables or {}).values()):
        _, w_again = X.make_worlds(s, req)
        try:
            resp2, _ = await X.run_engine(engine, s, req, w_again)
        except Exception as e:  # noqa
            ctx.violation("execute-raised", "second execution with the same variables object: %r" % e, case)
            return
        st.inc("evaluations")
        st.inc("same_variables_object_sent_twice")
        if X.jdump(resp2) != X.jdump(resp):
            d2 = X.first_diff(resp2.get("data"), resp.get("data"))
            ctx.violation("same-variables-object-coerced-differently-the-second-time", "notes=%s at %s second=%s first=%s" % (
                notes, list(d2[0]) if d2 else "errors", X.jdump(d2[1] if d2 else resp2.get("errors"))[:150], X.jdump(d2[2] if d2 else resp.get("errors"))[:150]), case)


async def run_case(ctx, rng, index):
    so = smodel.GenOpts(p_args=0.9, n_inputs=(1, 3), n_scalars=(0, 2), n_enums=(1, 2), n_objects=(1, 2), n_interfaces=(0, 0),
                        n_unions=(0, 0), p_mutation=0.0)
    s, b = await X.new_bundle(rng, so)
    st = ctx.stats
    try:
        for _ in range(DOCS_PER_SCHEMA):
            doc = build_doc(rng, s)
            if doc is None:
                continue
            op = doc.ops[0]
            for k in range(ASSIGNMENTS):
                hostile = k >= 4
                variables, notes = gen_assignment(rng, s, op, hostile)
                req = X.Request(doc, doc.text, op, variables, rng.randrange(10 ** 9), use_root=False,
                                pass_opname=op.name is not None and rng.random() < 0.5)
                await check(ctx, s, b.engine, req, b.sdl, notes)
                if hostile or any(isinstance(v, (list, dict)) for v in variables.values()):
                    st.distinct("nontrivial", (b.sdl, doc.text, canon(variables)))
                for n in notes:
                    st.inc("note:" + n.split(":", 1)[1].split("/")[-1])
            for n, t, d in op.vardefs:
                st.distinct("variable_types", tstr(t))
            st.sample({"query": doc.text[:600], "variables": variables, "notes": notes}, limit=3)
    finally:
        b.dispose()
