"""C14 — subscriptions answer every source event once, in order."""
from vt import docgen, exec_common as X, harness, refexec, sched as S, smodel, values, world as world_mod
from vt.props import c06
from vt.values import canon

LEVEL = "exploration"
N_CASES = {"quick": 320, "thorough": 8000}
DOCS_PER_SCHEMA = 4
MIN_NONTRIVIAL = 50
RULE = ("case = random schema with a subscription root x %d subscription documents (alias, nested fragments, arguments by "
        "literal and variable, root key selected twice / through an inline fragment) x event sequences of length 0-8 whose "
        "payloads are well-formed root objects, nulls, or objects provoking field errors (injected faults inside one event's "
        "subtree), consumed (a) sequentially and (b) two streams + a query interleaved under the controlled scheduler with "
        "gated sources; 40%% of the streams are opened with an initial_value (it is the parent of the source, never the root "
        "of an event's response); invalid requests incl. the same root field under two aliases; 30%% of the schemas carry a pass-through SCHEMA directive (on_schema_subscription / "
        "on_schema_execution forwarding positionally or by keyword). The recording source notes start / each event / finish. Oracle: number of yielded responses = number "
        "of events, in order; response i = reference execution of the selection with event i as root value (data exactly, "
        "C02 error accounting); the source receives the reference-coerced arguments, is started exactly once and runs to "
        "its end; a field failure inside one event does not end the stream; a request with invalid variables or failing "
        "validation yields exactly one errors-only response and the source is never started. non-trivial = stream with >=2 "
        "events; distinct by (SDL, document, variables, world, events, faults)") % DOCS_PER_SCHEMA
ASSUMPTIONS = ["runtime argument failures of the source field and skipped root fields are outside the statement and not generated"]
ANCHORS = [
    "tartiflette.engine:Engine.subscribe",
    "tartiflette.engine:Engine._perform_subscription",
    "tartiflette.execution.execute:create_source_event_stream",
    "tartiflette.execution.execute:execute",
    "tartiflette.subscription.subscription:Subscription.bake",
]


async def consume(engine, req, w, limit=64):
    out = []
    kw = {}
    if getattr(req, "sub_initial_value", False):
        # the request's own initial_value is the parent of the SOURCE; every response is computed from its event
        # (null events included), never from this object
        kw["initial_value"] = w.root_object(w.s.subscription, "init")
    opn = getattr(req, "op_name_override", req.op_name)
    async for resp in engine.subscribe(req.text, operation_name=opn, context={"world": w}, variables=req.variables, **kw):
        out.append(resp)
        if len(out) > limit:
            break
    return out


def reference_for(s, req, wseed, events, faults):
    """List of RefResult, one per event."""
    refs = []
    for i, kind in enumerate(events):
        w = world_mod.World(s, wseed, faults)
        w.events = events
        root = w.event(i, s.subscription)
        refs.append((refexec.reference(w, req.doc, req.op.name, req.variables, root), w))
    return refs


def check_stream(ctx, s, req, got, refs, w_eng, case, label):
    st = ctx.stats
    events = w_eng.events
    if len(got) != len(events):
        ctx.violation("response-count", "%s: %d responses for %d source events" % (label, len(got), len(events)), case)
        return
    for i, (resp, (ref, _w)) in enumerate(zip(got, refs)):
        env = X.check_envelope(resp)
        if env:
            ctx.violation("envelope", "event %d: %s" % (i, env), case)
            return
        d = X.first_diff(resp["data"], ref.data)
        if d:
            ctx.violation("event-response-differs", "%s event %d (%s) at %s engine=%s reference=%s" % (
                label, i, events[i], list(d[0]), X.jdump(d[1])[:150], X.jdump(d[2])[:150]), case)
            return
        if bool(ref.errors) != bool(resp.get("errors")):
            ctx.violation("event-errors-presence", "event %d ref=%s engine=%s" % (i, ref.errors[:2], X.jdump(resp.get("errors"))[:200]), case)
            return
        for kind, detail in X.check_errors(ctx, req, resp, ref, case):
            ctx.violation(kind, "event %d: %s" % (i, detail), case)
        st.inc("event_responses_checked")
    log = w_eng.source_log
    starts = [e for e in log if e[0] == "start"]
    if len(starts) != 1:
        ctx.violation("source-start-count", "source started %d times" % len(starts), case)
    elif log[-1] != ("finish",):
        ctx.violation("source-not-finished", "source log ends with %s" % (log[-1],), case)
    elif [e[1] for e in log if e[0] == "event"] != list(range(len(events))):
        ctx.violation("source-events-order", repr(log)[:300], case)
    if w_eng.anomalies:
        ctx.violation("resolver-anomaly", repr(w_eng.anomalies[:2]), case)


async def run_case(ctx, rng, index):
    st = ctx.stats
    so = smodel.GenOpts(p_subscription=1.0, p_mutation=0.2, n_objects=(2, 4), p_gate=0.1, p_schema_pass=0.3)
    s, b = await X.new_bundle(rng, so)
    try:
        for _ in range(DOCS_PER_SCHEMA):
            do = docgen.DocOpts(op_kinds=("subscription",), max_fields=rng.choice([4, 8, 12]), max_depth=rng.choice([2, 3, 4]))
            req = X.gen_request(rng, s, do)
            req.use_root = False
            req.sub_initial_value = rng.random() < 0.4
            if req.sub_initial_value:
                st.inc("streams_with_initial_value")
            n = rng.choice([0, 1, 2, 3, 3, 5, 8])
            events = [rng.choice(["obj", "obj", "obj", "null"]) for _ in range(n)]
            case = dict(req.describe(), sdl=b.sdl, events=events)
            # source arguments expected by the reference
            sub_field = None
            rx = refexec.RefExec(world_mod.World(s, req.wseed), req.doc, req.op, None)
            stt, coerced, _ = values.coerce_variables(s, req.op.vardefs, req.variables or {})
            if stt == "err":
                continue
            rx.vars = coerced
            try:
                grouped = rx.collect(s.subscription, req.op.selset, {}, set())
            except refexec.RefBug:
                st.inc("refbug")
                continue
            if len(grouped) != 1:
                st.inc("refbug")
                continue
            key, nodes = next(iter(grouped.items()))
            fdef = s.types[s.subscription].fields[nodes[0].name]
            ar = values.coerce_arguments(s, fdef.args, nodes[0].args, coerced)
            if ar[0] == "err":
                st.inc("source-argument-failure-skipped")
                continue
            # faults inside some event's subtree
            faults = {}
            refs0 = reference_for(s, req, req.wseed, events, {})
            if events and rng.random() < 0.5:
                i = rng.randrange(len(events))
                insts = refs0[i][1].insts
                if insts:
                    k = rng.choice(sorted(insts))
                    T, fname, v = insts[k]
                    faults[k] = rng.choice(refs0[i][1].applicable_faults(T, fname, v))
            case["faults"] = {k: list(v) for k, v in faults.items()}
            refs = reference_for(s, req, req.wseed, events, faults)
            # (a) sequential consumption
            w = world_mod.World(s, req.wseed, faults)
            w.events = events
            try:
                got = await consume(b.engine, req, w)
            except Exception as e:  # noqa
                ctx.violation("subscribe-raised", repr(e), case)
                continue
            st.inc("evaluations")
            st.inc("streams")
            st.inc("events", len(events))
            ctx.log("events", events, "faults", faults)
            ctx.log("got", X.jdump(got)[:2000])
            check_stream(ctx, s, req, got, refs, w, case, "sequential")
            starts = [e for e in w.source_log if e[0] == "start"]
            if starts and starts[0][2] != canon(ar[1]):
                ctx.violation("source-arguments", "source got %s, reference %s" % (starts[0][2], canon(ar[1])), case)
            # (b) interleaved consumption under the scheduler
            if events and rng.random() < 0.5:
                qreq = X.gen_request(rng, s, docgen.DocOpts(max_fields=4, max_depth=2))
                holder = {}

                async def run_once(choose):
                    def make(sched):
                        w1 = world_mod.World(s, req.wseed, faults, c15_prefixed(sched, "A|"))
                        w2 = world_mod.World(s, req.wseed, faults, c15_prefixed(sched, "B|"))
                        w3 = world_mod.World(s, qreq.wseed, None, c15_prefixed(sched, "Q|"))
                        w1.events = w2.events = events
                        holder["w"] = (w1, w2)
                        return [consume(b.engine, req, w1), consume(b.engine, req, w2),
                                b.engine.execute(qreq.text, operation_name=qreq.op_name, context={"world": w3}, variables=qreq.variables)]
                    results, sched, stray, stuck = await S.run_scheduled(make, choose, step_bound=20000)
                    return (results, stray, stuck, holder["w"]), sched
                runs, exhaustive = await S.collect_schedules(run_once, 6 if ctx.tier == "quick" else 40, rng, sample_tail=2)
                for prefix, (results, stray, stuck, ws), sched in runs:
                    st.inc("evaluations")
                    st.inc("interleaved_runs")
                    c2 = dict(case, schedule=[c[0] for c in sched.choices])
                    if stuck is not None:
                        ctx.violation("stuck", str(stuck), c2)
                        continue
                    for r, wx, lab in ((results[0], ws[0], "stream A"), (results[1], ws[1], "stream B")):
                        if isinstance(r, BaseException):
                            ctx.violation("subscribe-raised", "%s: %r" % (lab, r), c2)
                        else:
                            check_stream(ctx, s, req, r, refs, wx, c2, "interleaved " + lab)
                    if stray:
                        ctx.violation("task-alive-after-stream", repr(stray[:2]), c2)
            # invalid requests: one errors-only response, source never started
            for badkind in ("variables", "validation", "operation-name"):
                if badkind == "operation-name":
                    # a name that selects nothing (unknown, or differing only in case), also when the document has one operation
                    bad = X.Request(req.doc, req.text, req.op, req.variables, req.wseed, False, req.pass_opname)
                    nm = req.op.name
                    bad.op_name_override = rng.choice(["NoSuchOperation_", (nm.swapcase() if nm and nm.swapcase() != nm else "noSuchOp_")])
                    if any(o.name == bad.op_name_override for o in req.doc.ops):
                        continue
                elif badkind == "variables":
                    if not req.op.vardefs:
                        continue
                    bad = X.Request(req.doc, req.text, req.op, dict(req.variables, **{req.op.vardefs[0][0]: {"definitely": ["wrong"]}}),
                                    req.wseed, False, req.pass_opname)
                    r = values.coerce_variables(s, req.op.vardefs, bad.variables)
                    if r[0] != "err":
                        continue
                else:
                    bad = X.Request(req.doc, req.text + " fragment UnusedVt_ on %s { __typename }" % s.query, req.op, req.variables, req.wseed, False, req.pass_opname)
                wb = world_mod.World(s, req.wseed)
                wb.events = ["obj", "obj"]
                try:
                    gotb = await consume(b.engine, bad, wb)
                except Exception as e:  # noqa
                    ctx.violation("subscribe-raised", "invalid request (%s): %r" % (badkind, e), case)
                    continue
                st.inc("evaluations")
                st.inc("invalid_requests")
                if len(gotb) != 1 or gotb[0].get("data") is not None or not gotb[0].get("errors"):
                    ctx.violation("invalid-subscription-not-single-error", "%s: %s" % (badkind, X.jdump(gotb)[:300]), case)
                if wb.source_log or wb.calls:
                    ctx.violation("source-started-for-invalid-request", "%s: %s" % (badkind, wb.source_log[:2]), case)
            # a later INVALID document that reuses the name of a fragment already seen valid on this engine: the fragment
            # now contributes two root fields
            if req.op.selset and req.op.selset[0].kind == "spread":
                import copy
                d2 = copy.deepcopy(req.doc)
                d2.frags[req.op.selset[0].name].selset.append(docgen.FieldSel("__typename", alias="secondRoot_"))
                docgen.print_doc(d2, rng, {"multiline": False, "nl": "\n", "shorthand": True})
                bad = X.Request(d2, d2.text, req.op, req.variables, req.wseed, False, req.pass_opname)
                wb = world_mod.World(s, req.wseed)
                wb.events = ["obj", "obj"]
                try:
                    gotb = await consume(b.engine, bad, wb)
                    st.inc("evaluations")
                    st.inc("invalid_requests_reusing_a_fragment_name")
                    if len(gotb) != 1 or gotb[0].get("data") is not None or not gotb[0].get("errors"):
                        ctx.violation("invalid-subscription-not-single-error", "two root fields through reused fragment name: %s" % X.jdump(gotb)[:300],
                                      dict(case, query=d2.text))
                    if wb.source_log or wb.calls:
                        ctx.violation("source-started-for-invalid-request", "reused fragment name: %s" % (wb.source_log[:2],), dict(case, query=d2.text))
                except Exception as e:  # noqa
                    ctx.violation("subscribe-raised", "invalid request (reused fragment name): %r" % e, case)
            # ... and a document of TWO subscription operations: the valid one first, then a copy of it that selects a second
            # root field next to the same root-level fragment spread; the later operation is the one asked for (state a rule
            # keeps while walking the earlier operation - e.g. fragments already visited - must not excuse the later one)
            if req.op.selset and req.op.selset[0].kind == "spread":
                import copy
                d2 = copy.deepcopy(req.doc)
                op1 = [o for o in d2.ops if o.name == req.op.name][0]
                if op1.name is None:
                    op1.name = "First_"
                op2 = copy.deepcopy(op1)
                op2.name = "Both_"
                op2.selset.append(docgen.FieldSel("__typename", alias="secondRoot_"))
                d2.ops.append(op2)
                d2.order.append(("op", len(d2.ops) - 1))
                docgen.print_doc(d2, rng, {"multiline": False, "nl": "\n", "shorthand": False})
                bad = X.Request(d2, d2.text, op2, req.variables, req.wseed, False, True)
                wb = world_mod.World(s, req.wseed)
                wb.events = ["obj", "obj"]
                try:
                    gotb = await consume(b.engine, bad, wb)
                    st.inc("evaluations")
                    st.inc("invalid_requests_later_operation_of_two")
                    if len(gotb) != 1 or gotb[0].get("data") is not None or not gotb[0].get("errors"):
                        ctx.violation("invalid-subscription-not-single-error", "later of two operations selects two root fields: %s" % X.jdump(gotb)[:300],
                                      dict(case, query=d2.text, operation_name="Both_"))
                    if wb.source_log or wb.calls:
                        ctx.violation("source-started-for-invalid-request", "later of two operations: %s" % (wb.source_log[:2],),
                                      dict(case, query=d2.text, operation_name="Both_"))
                except Exception as e:  # noqa
                    ctx.violation("subscribe-raised", "invalid request (later of two operations): %r" % e, case)
            # the SAME root field under a second alias: two response keys, still one field name
            if req.op.selset and req.op.selset[0].kind == "field" and len(req.op.selset) == 1:
                import copy
                d2 = copy.deepcopy(req.doc)
                op2 = [o for o in d2.ops if o.name == req.op.name][0]
                twin = copy.deepcopy(op2.selset[0])
                twin.alias = "secondAlias_"
                op2.selset.append(twin)
                docgen.print_doc(d2, rng, {"multiline": False, "nl": "\n", "shorthand": True})
                bad = X.Request(d2, d2.text, op2, req.variables, req.wseed, False, req.pass_opname)
                wb = world_mod.World(s, req.wseed)
                wb.events = ["obj", "obj"]
                try:
                    gotb = await consume(b.engine, bad, wb)
                    st.inc("evaluations")
                    st.inc("invalid_requests_same_field_two_aliases")
                    if len(gotb) != 1 or gotb[0].get("data") is not None or not gotb[0].get("errors"):
                        ctx.violation("invalid-subscription-not-single-error", "same root field under two aliases: %s" % X.jdump(gotb)[:300],
                                      dict(case, query=d2.text))
                    if wb.source_log or wb.calls:
                        ctx.violation("source-started-for-invalid-request", "same root field under two aliases: %s" % (wb.source_log[:2],), dict(case, query=d2.text))
                except Exception as e:  # noqa
                    ctx.violation("subscribe-raised", "invalid request (two aliases of one root field): %r" % e, case)
            if len(events) >= 2:
                st.distinct("nontrivial", (b.sdl, req.text, canon(req.variables), req.wseed, tuple(events), sorted(faults.items())))
            st.sample({"query": req.text[:500], "events": events, "faults": case["faults"], "responses": X.jdump(got)[:600]}, limit=2)
    finally:
        b.dispose()


def c15_prefixed(sched, prefix):
    from vt.props.c15 import PrefixedSched
    return PrefixedSched(sched, prefix)
