"""C11 — introspection describes exactly the schema that was supplied."""
import os
import shutil

from vt import boot, exec_common, harness, sdlgen, smodel

LEVEL = "exploration"
N_CASES = {"quick": 240, "thorough": 6000}
MIN_NONTRIVIAL = 50
RULE = ("case = random schema model (every type kind, wrappers to depth 3, arguments / input fields / directive arguments "
        "with defaults of every value kind incl. strings with quotes, newlines and unicode, interfaces with several "
        "implementers, unions, renamed roots, descriptions, @deprecated with and without reason on fields and enum values, "
        "@nonIntrospectable fields, 0-3 custom directives with arbitrary location sets applied throughout) printed with a "
        "random part of every definition moved into `extend` definitions (all eight extension kinds; type-level directives on "
        "the definition, on a member-carrying extension or on a directive-only extension; schema directives in all three "
        "placements) and supplied in all "
        "four ways: one string, one file, a shuffled list of files (extensions may precede their targets), a directory tree "
        "of .sdl/.graphql files. Oracle: the full introspection query, compared with the expected result computed from the "
        "model: exact type-name set (extra only: meta-types and what the same tree reports for a one-field schema - the "
        "engine's own built-ins - each reported identically), kinds, descriptions, field / "
        "argument / input-field / enum-value sets, wrapped types, default values parsed back as GraphQL values, interfaces, "
        "possibleTypes, roots, directive names/locations/arguments, deprecation flags and reasons, includeDeprecated "
        "filtering, hidden fields; __type(name) for every name equals its __schema.types entry and is null for unknown "
        "names; __typename probes; a schema marked @nonIntrospectable refuses introspection. non-trivial = model with >=1 "
        "extension and >=1 default value; distinct by SDL text")
ASSUMPTIONS = ["type/field sets compared order-insensitively (the spec does not order them)"]
ANCHORS = [
    "tartiflette.language.parsers.lark.parser:parse_to_document",
    "tartiflette.schema.transformer:schema_from_sdl",
    "tartiflette.schema.bakery:SchemaBakery.bake",
    "tartiflette.schema.registry:SchemaRegistry.register_sdl",
    "tartiflette.schema.builtins.introspection:resolve_type_fields",
    "tartiflette.schema.builtins.introspection:resolve_type_enum_values",
    "tartiflette.directive.builtins.deprecated:DeprecatedDirective.on_post_bake",
    "tartiflette.directive.builtins.non_introspectable:NonIntrospectableDirective.on_introspection",
    "tartiflette.utils.directives:introspection_directives_executor",
]
MODES = ["string", "file", "files", "dir"]


def gen_model(rng):
    o = smodel.GenOpts(n_objects=(2, 5), n_interfaces=(0, 3), n_unions=(0, 2), n_enums=(1, 3), n_inputs=(0, 3), n_scalars=(0, 2),
                       p_args=0.5, p_mutation=0.4, p_subscription=0.3, rename_roots=0.3)
    s = smodel.gen_schema(rng, o)
    s.custom_default_resolver = s.custom_default_type_resolver = False
    sdlgen.decorate(rng, s)
    return s


async def build(rng, s, parts, mode, workdir):
    sdl = sdlgen.supply(rng, parts, mode, workdir)
    b = harness.Bundle(s, sdl=sdl)
    await b.build()
    return b, sdl


async def run_case(ctx, rng, index):
    st = ctx.stats
    s = gen_model(rng)
    parts = sdlgen.chunks(rng, s, p_split=rng.choice([0.0, 0.4, 0.8]))
    text = "\n\n".join(parts)
    workroot = os.path.join(boot.BUILD, "sdl_%d_%d" % (os.getpid(), index))
    modes = MODES if (ctx.tier == "thorough" or index % 4 == 0) else ["string", MODES[1 + index % 3]]
    try:
        for mode in modes:
            case = {"sdl": text, "mode": mode}
            try:
                b, sdl = await build(rng, s, parts, mode, os.path.join(workroot, mode))
            except Exception as e:  # noqa
                ctx.violation("valid-sdl-refused", "%s mode=%s" % (repr(e)[:300], mode), case)
                continue
            try:
                e = b.engine
                resp = await e.execute(sdlgen.INTROSPECTION_QUERY)
                st.inc("evaluations")
                st.inc("mode:" + mode)
                if resp.get("errors") or not resp.get("data"):
                    ctx.violation("introspection-failed", repr(resp.get("errors"))[:400], case)
                    continue
                problems = sdlgen.compare_schema(s, resp["data"]["__schema"], await sdlgen.engine_builtins())
                for p in problems[:6]:
                    ctx.violation("introspection-differs", "mode=%s %s" % (mode, p), case)
                # the same question through named fragments and variables (includeDeprecated given as $d defaulting to true,
                # $nd sent as false or left out in favour of the argument's own default): same data
                vars_ = {"nd": False} if index % 2 else {"d": True, "nd": False}
                rf = await e.execute(sdlgen.INTROSPECTION_QUERY_FRAGMENTS, variables=vars_, operation_name="IntrospectionQuery")
                st.inc("evaluations")
                st.inc("fragment_spelling_compared")
                if rf.get("errors") or rf.get("data") != resp["data"]:
                    ctx.violation("introspection-spelling-differs", "fragments + variables %r: %s" % (
                        vars_, repr(rf.get("errors"))[:200] if rf.get("errors") else repr(exec_common.first_diff(resp["data"], rf.get("data")))[:300]), case)
                # __type(name:) agrees with the types list, unknown names are null
                by_name = {t["name"]: t for t in resp["data"]["__schema"]["types"]}
                names = list(s.types) + ["Int", "NoSuchType_", "query", ""]
                q = "{ %s }" % " ".join('t%d: __type(name: %s) { %s }' % (i, smodel.esc_string(n), sdlgen.FULL_TYPE) for i, n in enumerate(names))
                r2 = await e.execute(q)
                st.inc("evaluations")
                if r2.get("errors") or not r2.get("data"):
                    ctx.violation("type-lookup-failed", repr(r2.get("errors"))[:300], case)
                else:
                    for i, n in enumerate(names):
                        got = r2["data"]["t%d" % i]
                        if n in by_name:
                            if got != by_name[n]:
                                ctx.violation("type-lookup-differs", "__type(name: %r) != its __schema.types entry" % n, case)
                        elif got is not None:
                            ctx.violation("unknown-type-not-null", "__type(name: %r) -> %r" % (n, got), case)
                r3 = await e.execute("{ __typename __schema { __typename queryType { __typename } } }")
                want = {"__typename": s.query, "__schema": {"__typename": "__Schema", "queryType": {"__typename": "__Type"}}}
                if r3.get("data") != want:
                    ctx.violation("typename-probe", "%r != %r" % (r3.get("data"), want), case)
                st.inc("types_compared", len(s.types))
                st.inc("directives_compared", len(s.directives) + 4)
            finally:
                b.dispose()
        # a schema marked @nonIntrospectable refuses introspection
        for where in (("def", "ext-ops", "ext-only") if index % 2 == 0 else ()):
            # the directive sits on `schema`, on `extend schema @d {..}` (with operations), or on a directive-only `extend schema @d`
            s.non_introspectable = True
            parts2 = sdlgen.chunks(rng, s, 0.9, schema_where=where)
            st.inc("non_introspectable_placement:" + ("ext-ops" if any(p_.startswith("extend schema @") and "{" in p_ for p_ in parts2)
                                                      else "ext-only" if any(p_.startswith("extend schema @") for p_ in parts2) else "def"))
            try:
                b = harness.Bundle(s, sdl="\n\n".join(parts2))
                await b.build()
                r = await b.engine.execute("{ __schema { queryType { name } } }")
                r2 = await b.engine.execute('{ __type(name: "Int") { name } }')
                st.inc("evaluations", 2)
                st.inc("non_introspectable_schemas")
                for rr in (r, r2):
                    leaked = rr.get("data") and any(v is not None for v in rr["data"].values())
                    if leaked or not rr.get("errors"):
                        ctx.violation("non-introspectable-schema-introspected", repr(rr)[:300], {"sdl": "\n\n".join(parts2)})
                b.dispose()
            except Exception as e:  # noqa
                ctx.violation("valid-sdl-refused", "schema @nonIntrospectable: %r" % e, {"sdl": "\n\n".join(parts2)})
            s.non_introspectable = False
        has_ext = any(p.startswith("extend ") for p in parts)
        has_def = " = " in text
        if has_ext and has_def:
            st.distinct("nontrivial", text)
        st.inc("extensions", sum(1 for p in parts if p.startswith("extend ")))
        st.sample({"sdl": text[:1500], "modes": modes}, limit=2)
    finally:
        shutil.rmtree(workroot, ignore_errors=True)
