"""C18 — execute always answers with a well-formed GraphQL response."""
import asyncio
import copy
import itertools
import json
import re

from vt import docgen, exec_common as X, harness, pyparser, smodel, world as world_mod

LEVEL = "exploration"
N_CASES = {"quick": 400, "thorough": 10000}
INPUTS_PER_CASE = 120
MIN_NONTRIVIAL = 100
RULE = ("case = one engine (random schema; error coercer one of: default, stamping, rewriting, yielding, annotating "
        "error['extensions'] in place) x %d inputs: "
        "random bytes / punctuation soup; grammar-aware mutations of valid documents (token delete/duplicate/swap, brace "
        "imbalance, truncation at any byte, broken strings and escapes); nesting 1..200000 deep; unicode, BOM, NUL, invalid "
        "UTF-8 (bytes and str spellings); empty / blank / comment-only; x operation names (right, wrong, empty, ambiguous, "
        "non-string, spelled like null: 'None' / 'null' / 'undefined') x variables (every JSON kind, non-dict, non-JSON Python values, wrong for the declared types) x contexts "
        "(dict, None, object). Oracle: execute returns a dict {data} or {data, errors: non-empty list}; every error entry is "
        "a dict with str message, path list-or-null, locations = list of {line, column} positive ints lying inside the query "
        "text (line <= #lines, column <= bytes of that line + 1), extensions only when non-empty; inputs the independent "
        "parser rejects and failed operation selections give data null with ZERO resolver/hook calls; the custom error "
        "coercer is awaited exactly once per reported error and what it returns is what appears (unique stamps), no error "
        "dict it is handed carries an earlier call's stamp, and a response already returned does not change when the next "
        "request is served. "
        "non-trivial = input answered with >=1 error; distinct by (input, operation name, variables)") % INPUTS_PER_CASE
ASSUMPTIONS = ["'syntactically broken' is decided by vt/pyparser.py, the independent parser the shim is differentially tested against"]
ANCHORS = [
    "tartiflette.engine:Engine.execute",
    "tartiflette.execution.collect:parse_and_validate_query",
    "tartiflette.execution.context:build_execution_context",
    "tartiflette.execution.response:build_response",
    "tartiflette.utils.errors:error_coercer_factory",
    "tartiflette.utils.errors:to_graphql_error",
    "tartiflette.types.exceptions.tartiflette:TartifletteError.coerce_value",
    "tartiflette.language.parsers.libgraphqlparser.parser:_parse_to_json_ast",
]

_stamp = itertools.count(1)


class Coercer:
    def __init__(self, kind):
        self.kind = kind
        self.issued = []
        self.calls = 0
        self.stale = 0      # error dicts handed over that already carried the stamp of an earlier call

    async def __call__(self, exception, error):
        self.calls += 1
        if self.kind == "yielding":
            await asyncio.sleep(0)
        if self.kind == "rewriting":
            n = next(_stamp)
            self.issued.append(n)
            return {"message": "rewritten", "path": error.get("path"), "locations": error.get("locations"), "stamp": n}
        n = next(_stamp)
        self.issued.append(n)
        if self.kind == "annotating" and isinstance(error.get("extensions"), dict):
            # the documentation's example shape: write into the extensions of the error that was handed over
            if "stamp" in error["extensions"]:
                self.stale += 1
            error["extensions"]["stamp"] = n
            return error
        if "stamp" in error:
            self.stale += 1
        error["stamp"] = n
        return error


TOKEN_RE = re.compile(r'\.\.\.|[!$():=@\[\]{}|&]|"(?:[^"\\\n]|\\.)*"|[_A-Za-z][_0-9A-Za-z]*|-?[0-9.eE+-]+|\s+|.', re.S)


def mutate_text(rng, text):
    toks = TOKEN_RE.findall(text)
    if not toks:
        return text
    for _ in range(rng.randint(1, 3)):
        r = rng.random()
        i = rng.randrange(len(toks))
        if r < 0.25:
            del toks[i]
        elif r < 0.45:
            toks.insert(i, toks[i])
        elif r < 0.6 and len(toks) > 1:
            j = rng.randrange(len(toks))
            toks[i], toks[j] = toks[j], toks[i]
        elif r < 0.8:
            toks.insert(i, rng.choice(["{", "}", "(", ")", "[", "]", '"', '"""', "\\", "$", "@", "...", ":", "!", "#", ",",
                                       "\\u12", "\x00", "\ufeff", "é", "😀", "on", "fragment", "query", "null", "1e999", "-", "0x1"]))
        else:
            toks[i] = rng.choice(["", "{", "}", '"unterminated', "'", "\\", "\t", "\r", "\r\n"])
        if not toks:
            break
    return "".join(toks)


def hostile_input(rng, valid_texts):
    r = rng.random()
    if r < 0.08:
        return bytes(rng.randrange(256) for _ in range(rng.randint(0, 40)))
    if r < 0.16:
        return "".join(rng.choice('{}()[]:!$@=|&."\\#,\n\t ab1-') for _ in range(rng.randint(0, 60)))
    if r < 0.2:
        return rng.choice(["", " ", "\n", "#only a comment", "\ufeff", "\x00", "\ufeff{ __typename }", "{ __typename }\x00{{{",
                           "query", "{", "}", "{}", "{ a: }", '{ f(x: "\\q") }', '{ f(x: "\ud800") }', "{ __typename } # end"])
    if r < 0.26:
        depth = rng.choice([1, 10, 100, 399, 400, 401, 1000, 5000]) if rng.random() < 0.97 else 200000
        kind = rng.choice(["sel", "list", "obj", "unbalanced"])
        if kind == "sel":
            return "{ a " * depth + "b" + " }" * depth
        if kind == "list":
            return "{ f(x: " + "[" * depth + "1" + "]" * depth + ") }"
        if kind == "obj":
            return "{ f(x: " + "{a: " * depth + "1" + "}" * depth + ") }"
        return "{" * depth
    t = rng.choice(valid_texts)
    if r < 0.30:
        # several ANONYMOUS operations in one document (operation selection must fail: ambiguous), also next to a valid text
        shorts = ["{ __typename }", "query { __typename }", "{ a: __typename }", "mutation { __typename }"]
        return " ".join(rng.choice(shorts) for _ in range(rng.randint(2, 3))) if rng.random() < 0.6 else t + " { __typename }"
    if r < 0.45:
        return t
    if r < 0.55:
        b = t.encode("utf-8")
        cut = rng.randrange(len(b) + 1)
        return b[:cut] if rng.random() < 0.5 else b[:cut].decode("utf-8", "ignore")
    if r < 0.62:
        b = bytearray(t.encode("utf-8"))
        for _ in range(rng.randint(1, 3)):
            b.insert(rng.randrange(len(b) + 1), rng.choice([0x00, 0x80, 0xC0, 0xFF, 0xED, 0xA0, 0x0B, 0x7F]))
        return bytes(b)
    m = mutate_text(rng, t)
    return m.encode("utf-8", "surrogatepass") if rng.random() < 0.3 else m


class Junk:
    def __repr__(self):
        return "<Junk>"


def hostile_variables(rng, valid):
    r = rng.random()
    if r < 0.5:
        return valid
    return rng.choice([None, {}, [], [1], "str", 5, True, {"v0": Junk()}, {"v0": {"deep": [[[{}]]]}}, {"v0": float("nan")},
                       {"v0": 10 ** 400}, {1: 2}, {"v0": None, "v1": None, "v2": None}, Junk(), {"v0": b"bytes"}, {"v0": (1, 2)}])


def hostile_opname(rng, names):
    r = rng.random()
    if r < 0.5:
        return rng.choice(names) if names else None
    return rng.choice([None, "", "NoSuchOp_", 5, True, "query", " ", "é", "None", "null", "undefined", "mutation", "__typename", "0",
                       "None", "anonymous"])


def line_lengths(query):
    b = query if isinstance(query, bytes) else query.encode("utf-8", "surrogatepass")
    nul = b.find(b"\x00")
    if nul >= 0:
        b = b[:nul]
    return [len(x) for x in re.split(rb"\r\n|\n|\r", b)]


def check_error_entry(e, lens):
    if not isinstance(e, dict):
        return "error entry is not a dict: %r" % (e,)
    if not isinstance(e.get("message"), str):
        return "message is not a string: %r" % (e.get("message"),)
    if "path" not in e or not (e["path"] is None or isinstance(e["path"], list)):
        return "path must be a list or null: %r" % (e.get("path", "<absent>"),)
    locs = e.get("locations")
    if not isinstance(locs, list):
        return "locations is not a list: %r" % (locs,)
    for loc in locs:
        if not (isinstance(loc, dict) and set(loc) == {"line", "column"}):
            return "bad location %r" % (loc,)
        ln, col = loc["line"], loc["column"]
        if type(ln) is not int or type(col) is not int or ln < 1 or col < 1:
            return "location not positive ints: %r" % (loc,)
        if ln > len(lens) or col > lens[ln - 1] + 1:
            return "location %r outside the query text (%d lines, line lengths %s)" % (loc, len(lens), lens[:6])
    if "extensions" in e and not (isinstance(e["extensions"], dict) and e["extensions"]):
        return "extensions present but empty/not a dict: %r" % (e["extensions"],)
    return None


def parse_info(query):
    """(syntactically_ok, operation names or None) by the independent parser."""
    try:
        ast = json.loads(pyparser.parse_to_json(query))
    except pyparser.GQLSyntaxError:
        return False, None
    except Exception:  # noqa  (e.g. undecodable)
        return None, None
    names = []
    for d in ast["definitions"]:
        if d["kind"] == "OperationDefinition":
            names.append(d["name"]["value"] if d.get("name") else None)
    return True, names


PROBE_SELF_DEFAULT = r"""
import asyncio, faulthandler, sys
faulthandler.dump_traceback_later(%d, exit=True)
from vt import boot
boot.init()
from tartiflette import create_engine, Resolver
@Resolver("Query.f", schema_name="vt_probe_selfdefault")
async def f(parent, args, ctx, info):
    return 1
async def main():
    e = await create_engine("input In { a: Int d: In! = {a: 1} }\ntype Query { f(i: In): Int }", schema_name="vt_probe_selfdefault")
    print("BUILT", flush=True)
    r = await e.execute("{ f(i: {a: 2}) }")
    print("RETURNED", isinstance(r, dict) and "data" in r, flush=True)
try:
    asyncio.run(main())
except BaseException as ex:
    print("RAISED", type(ex).__name__, flush=True)
"""


def probe_self_referential_default(ctx):
    """One deterministic probe in its own process (the expansion keeps the loop busy with ever new tasks: the request is never quiescent
    and never done, so a watchdog outside the loop decides): an input type whose non-null field of its own type has a default omitting that field."""
    import os
    import subprocess
    import sys
    st = ctx.stats
    env = dict(os.environ, PYTHONPATH=os.pathsep.join(p for p in sys.path if p), PYTHONDONTWRITEBYTECODE="1")
    try:
        r = subprocess.run([sys.executable, "-c", PROBE_SELF_DEFAULT % 12], env=env, capture_output=True, text=True, timeout=90)
    except subprocess.TimeoutExpired:
        st.inc("probe_self_default:inconclusive-outer-watchdog")
        return
    out, err = r.stdout, r.stderr
    st.inc("probe_self_default:runs")
    if "BUILT" not in out:
        st.inc("probe_self_default:schema-refused-or-not-reached")      # refused at build time: nothing to answer
        return
    if "RETURNED True" in out:
        st.inc("probe_self_default:returned")
        return
    case = {"sdl": "input In { a: Int d: In! = {a: 1} }\ntype Query { f(i: In): Int }", "query": "{ f(i: {a: 2}) }",
            "stderr_tail": err[-1500:]}
    if "RAISED" in out or "RETURNED False" in out:
        ctx.violation("execute-raised", "self-referential input default: %s" % out.strip()[-200:], case)
        return
    # no answer after 12 s: a verdict only when the interpreter was caught INSIDE the literal coercers (still expanding);
    # anything else (slow machine, stuck elsewhere) is counted and left undecided
    top = [ln for ln in err.splitlines() if ln.strip().startswith("File ")][:8]
    # innermost frames: asyncio's task creation called from the literal coercers, the coercers themselves, then the event loop
    if any("tartiflette/coercers/literals/" in ln for ln in top):
        top = [ln for ln in top if "tartiflette/" in ln]
        ctx.violation("execute-never-returns", "still expanding the default of In.d after 12 s: %s" % " <- ".join(
            ln.strip()[:90] for ln in top[:3]), case, "self-referential-input-default-expands-forever")
    else:
        st.inc("probe_self_default:inconclusive")


async def run_case(ctx, rng, index):
    st = ctx.stats
    if index == 0:
        probe_self_referential_default(ctx)
    s = smodel.gen_schema(rng, smodel.GenOpts(p_mutation=0.3, p_schema_pass=0.2))
    kind = rng.choice(["default", "stamping", "stamping", "rewriting", "yielding", "annotating", "annotating"])
    coercer = None if kind == "default" else Coercer(kind)
    b = harness.Bundle(s, **({} if coercer is None else {"error_coercer": coercer}))
    await b.build()
    try:
        reqs = [X.gen_request(rng, s, docgen.DocOpts(n_ops=rng.choice([(1, 1), (2, 3)]), max_fields=10, max_depth=3,
                                                     op_kinds=("query", "mutation"))) for _ in range(4)]
        texts = [r.text for r in reqs]
        prev = None
        for _ in range(INPUTS_PER_CASE):
            base = rng.choice(reqs)
            query = hostile_input(rng, [base.text] if rng.random() < 0.7 else texts)
            opname = hostile_opname(rng, [o.name for o in base.doc.ops if o.name])
            variables = hostile_variables(rng, base.variables)
            w = world_mod.World(s, base.wseed)
            if rng.random() < 0.3:
                w.p_raise_odd = 0.2        # resolvers raising plain, library-derived and awkward exceptions (unprintable, odd .message, ...)
                st.inc("requests_with_raising_resolvers")
            context = rng.choice([{"world": w}] * 6 + [None, 5, {"no": "world"}])
            if coercer:
                coercer.issued, coercer.calls, coercer.stale = [], 0, 0
            case = {"sdl": b.sdl, "query": repr(query)[:3000], "operation_name": repr(opname), "variables": repr(variables)[:300],
                    "context": repr(context)[:60], "coercer": kind}
            try:
                resp = await b.engine.execute(query, operation_name=opname, context=context, variables=variables,
                                              initial_value=None)
            except Exception as e:  # noqa
                ctx.violation("execute-raised", "%r for query=%s opname=%r variables=%s" % (e, repr(query)[:200], opname, repr(variables)[:100]), case)
                continue
            st.inc("evaluations")
            if prev is not None and X.jdump(prev[0]) != X.jdump(prev[1]):
                ctx.violation("returned-response-changed-later", "the response of the previous request was %s when returned and is %s after this "
                              "request" % (repr(prev[1])[:200], repr(prev[0])[:200]), dict(case, previous=prev[2]))
            try:
                prev = (resp, copy.deepcopy(resp), case)
            except Exception:  # noqa
                prev = None
            env = X.check_envelope(resp)
            if env:
                ctx.violation("envelope", env, case)
                continue
            errs = resp.get("errors") or []
            lens = line_lengths(query)
            for e in errs:
                why = check_error_entry(e, lens)
                if why:
                    ctx.violation("error-entry", "%s; query=%s" % (why, repr(query)[:200]), case)
                    break
            st.inc("errors_checked", len(errs))
            ok_syntax, names = parse_info(query)
            if ok_syntax is False:
                st.inc("syntax-invalid")
                if resp["data"] is not None or not errs or w.calls or w.tr_calls:
                    ctx.violation("syntax-error-not-refused", "data=%r calls=%d query=%s" % (resp["data"], len(w.calls), repr(query)[:200]), case)
            elif ok_syntax:
                st.inc("syntax-valid")
                sel_fails = (opname and opname not in names) or (not opname and len(names) != 1)
                if isinstance(opname, str) and sel_fails or (not opname and len(names) != 1):
                    st.inc("operation-selection-fails")
                    if resp["data"] is not None or not errs or w.calls or w.tr_calls:
                        ctx.violation("failed-operation-selection-ran", "opname=%r names=%s data=%r calls=%d" % (opname, names, resp["data"], len(w.calls)), case)
            if coercer:
                stamps = [e.get("stamp", (e.get("extensions") or {}).get("stamp") if isinstance(e.get("extensions"), dict) else None)
                          for e in errs if isinstance(e, dict)]
                if coercer.stale:
                    ctx.violation("error-coercer-handed-used-error", "%d of %d error dicts handed to the coercer already carried the stamp of an "
                                  "earlier call (state shared between reported errors)" % (coercer.stale, coercer.calls), case)
                if coercer.calls != len(errs):
                    ctx.violation("error-coercer-count", "awaited %d times for %d reported errors" % (coercer.calls, len(errs)), case)
                elif sorted(stamps, key=repr) != sorted(coercer.issued, key=repr):
                    ctx.violation("error-coercer-result-not-used", "stamps in response %s != issued %s" % (stamps[:5], coercer.issued[:5]), case)
                st.inc("coercer_calls", coercer.calls)
            try:
                json.dumps(resp, allow_nan=False)
            except Exception as e:  # noqa
                ctx.violation("not-json-serialisable", repr(e)[:200], case, exc=False)
            if errs:
                st.distinct("nontrivial", (repr(query), repr(opname), repr(variables)))
                st.distinct("error_messages", errs[0].get("message", "")[:40] if isinstance(errs[0], dict) else "?")
            st.sample({"query": repr(query)[:300], "operation_name": repr(opname), "variables": repr(variables)[:100],
                       "response": repr(resp)[:400]}, limit=3)
    finally:
        b.dispose()
