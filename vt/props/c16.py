"""C16 — the query cache and request history never change a response."""
import functools

from vt import docgen, exec_common as X, harness, refexec, smodel
from vt.props import c15
from vt.values import canon

LEVEL = "exploration"
N_CASES = {"quick": 160, "thorough": 4000}
SEQS_PER_SCHEMA = 2
MIN_NONTRIVIAL = 30
RULE = ("case = one schema cooked into 7 engines: default LRU(512), lru_cache(1), lru_cache(2), cache disabled, a dict "
        "cache, a randomly evicting cache (all recording hits/misses/evictions) and an uncached long-lived reference; x %d "
        "request sequences of length 6-40 over a pool of 3-10 requests: valid, failing (injected faults), invalid, "
        "syntactically broken, same text with other variables / operation names / worlds, str and bytes spellings of the "
        "same text, Boolean-flipped twins of one text, rule-violating rewrites sharing fragment names with the valid "
        "documents, immediate repeats, failures followed by successes; 35%% of the cases give every engine an in-place "
        "annotating error coercer. Oracle: at every position every engine's response "
        "equals the uncached reference's response (data exactly, errors as multisets), and for a sample of positions also "
        "the response of a brand-new uncached engine built for that single request; the uncached engine itself answers one "
        "request identically wherever it stands in the sequence and never refuses a request generated valid whose "
        "reference-executor answer has data. non-trivial = sequence over >=3 distinct texts in which "
        "some text is asked again after another one (hits / evictions of the recording caches are evidence, not a gate); "
        "distinct by (SDL, sequence)") % SEQS_PER_SCHEMA
ASSUMPTIONS = ["pure resolvers", "responses compared after normalising error order"]
ANCHORS = [
    "tartiflette.engine:Engine.execute",
    "tartiflette.execution.collect:parse_and_validate_query",
    "tartiflette.execution.context:build_execution_context",
    "tartiflette.execution.response:build_response",
]


def cache_key(args, kwargs):
    """str and bytes spellings of one text are different keys (as for functools.lru_cache(typed=False) they are anyway)."""
    return (tuple((type(a).__name__, a) for a in args), tuple(sorted((k, type(v).__name__, v) for k, v in kwargs.items())))


class CountingCache:
    """Wraps a cache policy; records hits / misses / evictions."""

    def __init__(self, policy, rng=None, capacity=None):
        self.policy, self.rng, self.capacity = policy, rng, capacity
        self.hits = self.misses = self.evictions = self.invalid_hits = 0
        self.store = {}
        self.order = []

    def __call__(self, fn):
        def cached(*args, **kwargs):
            # nothing is assumed about the decorated function but what functools.lru_cache assumes: hashable arguments
            k = cache_key(args, kwargs)
            if k in self.store:
                self.hits += 1
                v = self.store[k]
                if isinstance(v, tuple) and len(v) == 2 and v[1]:
                    self.invalid_hits += 1
                if self.policy == "lru":
                    self.order.remove(k)
                    self.order.append(k)
                return self.store[k]
            self.misses += 1
            v = fn(*args, **kwargs)
            self.store[k] = v
            self.order.append(k)
            if self.capacity is not None and len(self.store) > self.capacity:
                victim = self.order[0] if self.policy == "lru" else self.rng.choice(self.order[:-1] or self.order)
                self.order.remove(victim)
                del self.store[victim]
                self.evictions += 1
            return v
        return cached


def engines_under_test(rng):
    import random
    return [
        ("default-lru512", None, None),
        ("functools-lru1", functools.lru_cache(maxsize=1), None),
        ("functools-lru2", functools.lru_cache(maxsize=2), None),
        ("disabled", "none", None),
        ("dict", None, CountingCache("dict")),
        ("lru2-recording", None, CountingCache("lru", capacity=2)),
        ("random-evict3", None, CountingCache("random", random.Random(rng.randrange(10 ** 9)), capacity=3)),
    ]


async def annotating_error_coercer(exception, error):
    """Written like the documentation's example: it writes into the error (and its extensions) it was handed."""
    if isinstance(error.get("extensions"), dict):
        error["extensions"]["seen"] = error["extensions"].get("seen", 0) + 1
    error["annotated"] = error.get("annotated", 0) + 1
    return error


async def build(s, sdl, deco, counting, coercer=None):
    opts = {}
    if coercer is not None:
        opts["error_coercer"] = coercer
    if counting is not None:
        opts["query_cache_decorator"] = counting
    elif deco == "none":
        opts["query_cache_decorator"] = None
    elif deco is not None:
        opts["query_cache_decorator"] = deco
    b = harness.Bundle(s, sdl=sdl, **opts)
    await b.build()
    return b


def gen_pool(rng, s):
    pool = []
    for _ in range(rng.randint(1, 3)):
        pool.extend(c15.gen_batch(rng, s))
    extra = []
    for it in pool:
        if rng.random() < 0.35:
            it2 = c15.Item(it.text.encode("utf-8"), it.op_name, it.variables, it.wseed, it.faults, it.use_root, it.root_t, it.kind + "-bytes")
            it2.deny = getattr(it, "deny", False)
            extra.append(it2)
    pool.extend(extra)
    rng.shuffle(pool)
    pool = pool[:10]
    # Boolean-flipped twins: the same text (so the same cache entry) with every Boolean variable negated -- what anything
    # memoised on the cached document about @skip/@include outcomes would get wrong
    for it in list(pool):
        if it.kind in ("exec", "exec-bytes") and any(isinstance(v, bool) for v in (it.variables or {}).values()) and rng.random() < 0.6:
            pool.append(c15.Item(it.text, it.op_name, {k: (not v if isinstance(v, bool) else v) for k, v in it.variables.items()},
                                 it.wseed, it.faults, it.use_root, it.root_t, it.kind))
    # the same text once rejected by the schema directive and once not (a rejection must not stick to the cached document)
    for it in list(pool):
        if "vtpass" in s.directives and rng.random() < 0.2:
            tw = c15.Item(it.text, it.op_name, it.variables, it.wseed, it.faults, it.use_root, it.root_t, it.kind + "+denied"
                          if not getattr(it, "deny", False) else it.kind.replace("+denied", ""))
            tw.deny = not getattr(it, "deny", False)
            pool.append(tw)
    return pool[:20]


async def run_case(ctx, rng, index):
    st = ctx.stats
    s = smodel.gen_schema(rng, smodel.GenOpts(n_objects=(2, 4), fields=(2, 4), p_mutation=0.3, p_schema_pass=0.3))
    sdl = smodel.print_sdl(s)
    bundles = []
    try:
        coercer = annotating_error_coercer if rng.random() < 0.35 else None
        if coercer:
            st.inc("cases_with_annotating_error_coercer")
        ref = await build(s, sdl, "none", None, coercer)
        bundles.append(ref)
        under = []
        for name, deco, counting in engines_under_test(rng):
            b = await build(s, sdl, deco, counting, coercer)
            bundles.append(b)
            under.append((name, b, counting))
        for _ in range(SEQS_PER_SCHEMA):
            pool = gen_pool(rng, s)
            n = rng.randint(6, 40)
            seq = []
            for i in range(n):
                if seq and rng.random() < 0.2:
                    seq.append(seq[-1])
                else:
                    seq.append(rng.randrange(len(pool)))
            case = {"sdl": sdl, "pool": [it.describe() if isinstance(it.text, str) else dict(it.describe(), query=repr(it.text)) for it in pool], "sequence": seq}
            expected = []
            try:
                for idx in seq:
                    expected.append(c15.norm(await pool[idx].coro(ref.engine, s, None, None), ref.name))
            except Exception as e:  # noqa
                ctx.violation("execute-raised", "reference engine: %r" % e, case)
                continue
            # a request generated VALID (document, operation name, variables) that the cache-less engine answers with
            # 'data: null' without running anything, although the specification's answer has data: refused because of what
            # came before it (this process only ever validated other documents in between)
            for pos, idx in enumerate(seq):
                it = pool[idx]
                req = getattr(it, "req", None)
                if req is not None and expected[pos][0] == "null" and expected[pos][1] and not getattr(it, "mutate_args", False):
                    try:
                        w_ref = c15.world_mod.World(s, it.wseed, it.faults)
                        rr = X.run_reference(s, req, w_ref)
                    except refexec.RefBug:
                        continue
                    st.inc("null_data_answers_checked_against_reference")
                    if not rr.request_error and rr.data is not None:
                        ctx.violation("valid-request-refused", "cache-less engine, position %d request %d: %s" % (pos, idx, str(expected[pos])[:300]), case)
                        break
            # "repeating a request gives the same response ... earlier requests (failed or not) leave no trace in later
            # ones": the cache-less reference engine itself must answer a request identically wherever it stands in the
            # sequence (state kept outside the cache -- in a validation rule, a module -- would show here)
            first_at = {}
            for pos, idx in enumerate(seq):
                if idx in first_at and expected[pos] != expected[first_at[idx]]:
                    ctx.violation("response-depends-on-history", "cache-less engine: request %d (%s) answered %s at position %d but %s at position %d" % (
                        idx, pool[idx].kind, str(expected[first_at[idx]])[:250], first_at[idx], str(expected[pos])[:250], pos), case)
                    break
                first_at.setdefault(idx, pos)
            for name, b, counting in under:
                for pos, idx in enumerate(seq):
                    try:
                        got = c15.norm(await pool[idx].coro(b.engine, s, None, None), b.name)
                    except Exception as e:  # noqa
                        ctx.violation("execute-raised", "%s position %d: %r" % (name, pos, e), case)
                        break
                    st.inc("evaluations")
                    if got != expected[pos]:
                        ctx.violation("cached-engine-differs", "engine=%s position=%d request=%d (%s): got=%s expected=%s" % (
                            name, pos, idx, pool[idx].kind, str(got)[:300], str(expected[pos])[:300]), case)
                        break
            # brand-new engine for a sample of positions
            for pos in rng.sample(range(n), min(n, 2 if ctx.tier == "quick" else 4)):
                fb = await build(s, sdl, "none", None, coercer)
                try:
                    got = c15.norm(await pool[seq[pos]].coro(fb.engine, s, None, None), fb.name)
                    st.inc("fresh_engine_positions")
                    if got != expected[pos]:
                        ctx.violation("fresh-engine-differs", "position=%d request=%d: fresh=%s long-lived=%s" % (
                            pos, seq[pos], str(got)[:300], str(expected[pos])[:300]), case)
                except Exception as e:  # noqa
                    ctx.violation("execute-raised", "fresh engine: %r" % e, case)
                finally:
                    fb.dispose()
            st.inc("sequences")
            st.inc("positions", n)
            hits = sum(c.hits for _, _, c in under if c)
            ev = sum(c.evictions for _, _, c in under if c)
            inv = sum(c.invalid_hits for _, _, c in under if c)
            st.inc("cache_hits", hits)
            st.inc("cache_evictions", ev)
            st.inc("cache_hits_on_invalid_documents", inv)
            for it in pool:
                st.inc("kind:" + it.kind)
            # non-trivial is a property of the SEQUENCE (a text asked again after other texts, an invalid document asked twice),
            # not of what the harness's own cache wrappers saw: an engine may put a transparent memo in front of them
            texts = [repr(pool[i].text) for i in seq]
            again = any(texts[i] in texts[:i - 1] for i in range(2, len(texts)))
            if again and len(set(texts)) >= 3:
                st.distinct("nontrivial", (sdl, canon(seq), canon([repr(it.text) for it in pool])))
            st.sample({"sequence": seq, "pool": [{"query": repr(it.text)[:120], "kind": it.kind, "variables": it.variables} for it in pool]}, limit=2)
            for _, _, c in under:
                if c:
                    c.hits = c.misses = c.evictions = c.invalid_hits = 0
    finally:
        for b in bundles:
            b.dispose()
