"""C07 — documents breaking a supported validation rule are refused, nothing runs."""
import copy

from vt import docgen, exec_common as X, harness, smodel, values, world as world_mod
from vt.docgen import FieldSel, FragDef, InlineFrag, Op, Spread
from vt.smodel import NODEF, DirectiveDef, N, NN, L, is_nn, named_of, nullable, print_value, tstr

LEVEL = "fault_enumeration"
N_CASES = {"quick": 200, "thorough": 1500}
DOCS_PER_SCHEMA = 3
MIN_NONTRIVIAL = 100
RULE = ("case = random schema (with a recording query-side directive and a schema-only directive) x %d valid documents "
        "(as C06: fragments, several operations incl. subscriptions, variables, directives) x the catalogue of "
        "violation-injecting rewrites, >=1 per supported rule, applied at every applicable site (capped per rewrite in quick): "
        "executable-definitions, operation-name-uniqueness, lone-anonymous-operation, single-root-field, fields-exist (unknown, "
        "__unknown, implementer-only on interface, field on union, __schema below root), leaf-field-selections (both ways), "
        "argument-names, argument-uniqueness, required-arguments (field and directive), values-of-correct-type (wrong kind per "
        "leaf, range, string<->enum, null for non-null, unknown / missing input field; at argument, list item, object field, "
        "directive argument and variable-default sites), input-object-field-uniqueness, fragment-name-uniqueness, "
        "fragment-spread-type-existence, fragments-on-composite-types, fragment-must-be-used, fragment-spread-target-defined, "
        "fragment cycles (1-, 2-, n-cycles; closing spread at top level or nested in a field / inline fragment), "
        "fragment-spread-is-possible (inline and named), directives-are-defined, directives-in-valid-locations, "
        "directives-unique-per-location, variable-uniqueness, variables-are-input-types, all-variable-uses-defined (field arg, "
        "directive arg, nested value, inside a fragment), all-variables-used, all-variable-usages-are-allowed (nullable into "
        "non-null, list vs non-list, other named type; top-level, nested in list/object literal, directive, through fragment). "
        "Oracle: data null, non-empty errors, and ZERO calls of resolvers, type resolvers, default resolvers and field / "
        "argument directive hooks. non-trivial = every executed (rule, site); distinct by (rewritten document)") % DOCS_PER_SCHEMA
ASSUMPTIONS = ["each rewrite is invalid by construction for the targeted rule (there is no second validator in the loop)"]
ANCHORS = ["tartiflette.language.validators.query.%s:%s.validate" % (m, c) for m, c in [
    ("all_variable_usages_are_allowed", "AllVariableUsagesAreAllowed"), ("all_variable_uses_defined", "AllVariableUsesDefined"),
    ("all_variables_used", "AllVariablesUsed"), ("argument_names", "ArgumentNames"), ("argument_uniqueness", "ArgumentUniqueness"),
    ("directives_are_defined", "DirectivesAreDefined"), ("directives_are_in_valid_locations", "DirectivesAreInValidLocations"),
    ("directives_are_unique_per_location", "DirectivesAreUniquePerLocation"), ("executable_definitions", "ExecutableDefinitions"),
    ("field_selections_on_objects_interfaces_and_unions_types", "FieldSelectionsOnObjectsInterfacesAndUnionsTypes"),
    ("fragment_must_be_used", "FragmentMustBeUsed"), ("fragment_name_uniqueness", "FragmentNameUniqueness"),
    ("fragment_spread_is_possible", "FragmentSpreadIsPossible"), ("fragment_spread_target_defined", "FragmentSpreadTargetDefined"),
    ("fragment_spread_type_existence", "FragmentSpreadTypeExistence"), ("fragment_spreads_must_not_form_cycles", "FragmentSpreadsMustNotFormCycles"),
    ("fragments_on_composite_types", "FragmentsOnCompositeTypes"), ("input_object_field_uniqueness", "InputObjectFieldUniqueness"),
    ("leaf_field_selections", "LeafFieldSelections"), ("lone_anonymous_operation", "LoneAnonymousOperation"),
    ("operation_name_uniqueness", "OperationNameUniqueness"), ("required_arguments", "RequiredArguments"),
    ("single_root_field", "SingleRootField"), ("values_of_correct_type", "ValuesOfCorrectType"),
    ("variable_uniqueness", "VariableUniqueness"), ("variables_are_input_types", "VariablesAreInputTypes")]]
ANCHORS.append("tartiflette.engine:Engine._perform_query")


# --------------------------------------------------------------------------- traversal

class Site:
    def __init__(self, container, index, sel, parent, owner, depth, in_frag):
        self.container, self.index, self.sel, self.parent, self.owner = container, index, sel, parent, owner
        self.depth, self.in_frag = depth, in_frag


def walk(s, doc):
    """Yields Site for every selection of the document with its static parent type."""
    out = []

    def rec(selset, parent, owner, depth, in_frag):
        for i, sel in enumerate(selset):
            out.append(Site(selset, i, sel, parent, owner, depth, in_frag))
            if sel.kind == "field":
                if sel.selset is not None and parent in s.types:
                    f = s.fields_of(parent).get(sel.name)
                    if f is not None:
                        rec(sel.selset, named_of(f.type), owner, depth + 1, in_frag)
            elif sel.kind == "inline":
                rec(sel.selset, sel.typecond or parent, owner, depth + 1, in_frag)
    for op in doc.ops:
        rec(op.selset, s.roots()[op.kind], op, 1, False)
    for fr in doc.frags.values():
        rec(fr.selset, fr.typecond, fr, 1, True)
    return out


def literal_sites(s, doc):
    """Every (typed) literal position: (path description, typ, getter/setter)."""
    out = []

    def rec_value(holder, key, typ, v, where):
        out.append((where, typ, holder, key, v))
        t = typ[1] if typ[0] == "NN" else typ
        if v[0] == "list" and t[0] == "L":
            for i, x in enumerate(v[1]):
                rec_value(v[1], i, t[1], x, where + "[%d]" % i)
        elif v[0] == "object" and t[0] == "N" and t[1] in s.types and s.types[t[1]].kind == "INPUT_OBJECT":
            td = s.types[t[1]]
            for i, (k, x) in enumerate(v[1]):
                f = td.field(k)
                if f is not None:
                    rec_value(_PairSetter(v[1], i), "v", f.type, x, where + "." + k)
    for site in walk(s, doc):
        sel = site.sel
        if sel.kind == "field" and site.parent in s.types:
            f = s.fields_of(site.parent).get(sel.name)
            if f is not None:
                for i, (an, v) in enumerate(sel.args):
                    a = f.arg(an)
                    if a is not None:
                        rec_value(_PairSetter(sel.args, i), "v", a.type, v, "arg %s.%s(%s)" % (site.parent, sel.name, an))
        for dname, dargs in getattr(sel, "directives", []):
            dd = DIRECTIVE_ARGS(s).get(dname)
            if dd:
                for i, (an, v) in enumerate(dargs):
                    if an in dd:
                        rec_value(_PairSetter(dargs, i), "v", dd[an], v, "directive @%s(%s)" % (dname, an))
    return out


class _PairSetter:
    """Lets a (name, value) tuple inside a list be assigned through holder[key] = value."""

    def __init__(self, lst, i):
        self.lst, self.i = lst, i

    def __setitem__(self, key, value):
        self.lst[self.i] = (self.lst[self.i][0], value)


def set_value(holder, key, v):
    holder[key] = v


def DIRECTIVE_ARGS(s):
    d = {"skip": {"if": NN(N("Boolean"))}, "include": {"if": NN(N("Boolean"))}}
    for dd in s.directives.values():
        d[dd.name] = {a.name: a.type for a in dd.args}
    return d


def wrong_literal(rng, s, typ):
    """A constant literal that is certainly not of type typ (kind mismatch etc.), or None."""
    t = typ[1] if typ[0] == "NN" else typ
    cands = []
    if typ[0] == "NN":
        cands.append((("null",), "null-for-non-null"))
    if t[0] == "L":
        inner = t[1]
        w = wrong_literal(rng, s, inner)
        if w:
            cands.append((("list", [w[0]]), "list-item:" + w[1]))
            if w[0][0] not in ("null", "list"):
                # a bare non-list literal stands for a one-element list; null and list literals would be read as the list itself
                cands.append((w[0], "bare:" + w[1]))
        return rng.choice(cands) if cands else None
    name = t[1]
    if name == "Int":
        cands += [(("string", "1"), "string-for-Int"), (("float", "1.5"), "float-for-Int"), (("bool", True), "bool-for-Int"),
                  (("int", 2 ** 31), "Int-out-of-range"), (("enum", "RED"), "enum-for-Int"), (("list", [("string", "x")]), "list-for-Int"),
                  (("object", []), "object-for-Int")]
    elif name == "Float":
        cands += [(("string", "1.5"), "string-for-Float"), (("bool", False), "bool-for-Float"), (("enum", "x"), "enum-for-Float")]
    elif name == "String":
        cands += [(("int", 1), "int-for-String"), (("bool", True), "bool-for-String"), (("enum", "abc"), "enum-for-String"),
                  (("float", "1.5"), "float-for-String")]
    elif name == "Boolean":
        cands += [(("int", 1), "int-for-Boolean"), (("string", "true"), "string-for-Boolean"), (("enum", "TRUE"), "enum-for-Boolean")]
    elif name == "ID":
        cands += [(("float", "1.5"), "float-for-ID"), (("bool", True), "bool-for-ID"), (("enum", "abc"), "enum-for-ID")]
    else:
        td = s.types[name]
        if td.kind == "ENUM":
            cands += [(("string", td.values[0]), "string-for-enum"), (("enum", "NOT_A_VALUE_"), "unknown-enum-value"), (("int", 1), "int-for-enum"),
                      (("bool", True), "bool-for-enum")]
        elif td.kind == "SCALAR":
            cands += [(("int", 3), "odd-for-Even") if td.impl == "even" else (("int", 5), "int-for-Tag")]
        elif td.kind == "INPUT_OBJECT":
            cands += [(("string", "x"), "string-for-input-object"), (("int", 1), "int-for-input-object"),
                      (("object", [("unknownField_", ("int", 1))] + required_fields(rng, s, td)), "unknown-input-field")]
            req = [f for f in td.fields if is_nn(f.type) and f.default is NODEF]
            if req:
                cands.append((("object", []), "missing-required-input-field"))
    return rng.choice(cands) if cands else None


def required_fields(rng, s, td):
    return [(f.name, values.plain_to_literal(rng, s, f.type, values._gen_plain_nn(rng, s, f.type, 2)))
            for f in td.fields if is_nn(f.type) and f.default is NODEF]


# --------------------------------------------------------------------------- catalogue

class Catalogue:
    def __init__(self, rng, s, doc, cap):
        self.rng, self.s, self.doc, self.cap = rng, s, doc, cap
        self.out = []   # (rule, site label, fn(doc2) -> None, text_fn or None)

    def add(self, rule, site, fn=None, text=None):
        self.out.append((rule, site, fn, text))

    def pick(self, items):
        items = list(items)
        self.rng.shuffle(items)
        return items[: self.cap]

    def build(self):
        rng, s, doc = self.rng, self.s, self.doc
        sites = walk(s, doc)
        fields = [(i, x) for i, x in enumerate(sites) if x.sel.kind == "field"]
        composite_fields = [(i, x) for i, x in fields if x.sel.selset is not None and x.sel.name not in ("__schema", "__type")]
        leaf_fields = [(i, x) for i, x in fields if x.sel.selset is None and x.sel.name != "__typename"]
        real_fields = [(i, x) for i, x in fields if not x.sel.name.startswith("__") and x.parent in s.types]

        def at(i):
            """returns fn wrapper giving the i-th site of the copied doc"""
            def get(doc2):
                return walk(s, doc2)[i]
            return get

        # executable-definitions
        for t in ["type ExtraT_ { a: Int }", "scalar ExtraS_", "schema { query: %s }" % s.query, "extend type %s { z_: Int }" % s.query,
                  "directive @extraD_ on FIELD", "enum ExtraE_ { A }", "input ExtraI_ { a: Int }", "interface ExtraIf_ { a: Int }",
                  "union ExtraU_ = %s" % s.query]:
            self.add("executable-definitions", t.split("{")[0].strip() + (" (first)" if rng.random() < 0.5 else " (last)"),
                     text=(lambda txt, t=t, first=rng.random() < 0.5: t + " " + txt if first else txt + " " + t))
        # operation names
        named = [o for o in doc.ops if o.name]
        if len(named) >= 2:
            for a, b in self.pick([(a, b) for a in range(len(doc.ops)) for b in range(len(doc.ops)) if a != b and doc.ops[a].name and doc.ops[b].name]):
                self.add("operation-name-uniqueness", "op#%d takes the name of op#%d" % (a, b),
                         lambda d, a=a, b=b: setattr(d.ops[a], "name", d.ops[b].name))
        if len(doc.ops) >= 2:
            for a in self.pick(range(len(doc.ops))):
                self.add("lone-anonymous-operation", "op#%d loses its name" % a, lambda d, a=a: setattr(d.ops[a], "name", None))
        if named:
            def fn(d):
                d.ops.append(Op("query", None, [FieldSel("__typename")]))
                d.order.append(("op", len(d.ops) - 1))
            self.add("lone-anonymous-operation", "anonymous operation added next to named ones", fn)

        def all_anonymous(d):
            # every operation anonymous (>= 2 of them): no named one is left
            for o in d.ops:
                o.name = None
            if len(d.ops) < 2:
                d.ops.append(Op("query", None, [FieldSel("__typename")]))
                d.order.append(("op", len(d.ops) - 1))
        self.add("lone-anonymous-operation", "all operations anonymous (two or more)", all_anonymous)
        # single root field
        for oi, op in enumerate(doc.ops):
            if op.kind == "subscription":
                root = s.subscription
                others = [f for f in s.types[root].fields.values() if not any(is_nn(a.type) and a.default is NODEF for a in f.args)]
                variants = []
                if others:
                    f2 = others[0]
                    second = FieldSel(f2.name, alias="second_", selset=[FieldSel("__typename")] if s.is_composite(named_of(f2.type)) else None)
                    variants += [("2nd root field", lambda d, oi=oi, second=second: d.ops[oi].selset.append(copy.deepcopy(second))),
                                 ("2nd root field through inline fragment", lambda d, oi=oi, second=second: d.ops[oi].selset.append(InlineFrag(None, [], [copy.deepcopy(second)]))),
                                 ("2nd root field through named fragment", lambda d, oi=oi, second=second, root=root: self._add_frag(d, oi, root, [copy.deepcopy(second)]))]
                variants.append(("__typename as 2nd root", lambda d, oi=oi: d.ops[oi].selset.append(FieldSel("__typename"))))

                def later_copy(d, oi=oi):
                    # the valid operation stays; a LATER copy of it (sharing its root-level fragments) selects a 2nd root field
                    if d.ops[oi].name is None:
                        d.ops[oi].name = "First_"
                    op2 = copy.deepcopy(d.ops[oi])
                    op2.name = "Both_"
                    op2.selset.append(FieldSel("__typename", alias="secondRoot_"))
                    d.ops.append(op2)
                    d.order.append(("op", len(d.ops) - 1))
                if len(doc.ops) == 1 or op.name:
                    variants.append(("a later copy of the operation adds __typename as 2nd root", later_copy))
                for label, fn in variants:
                    self.add("single-root-field", "subscription op#%d: %s" % (oi, label), fn)
        # fields exist
        for i, x in self.pick(real_fields):
            self.add("fields-exist", "undefined field at depth %d%s" % (x.depth, " in fragment" if x.in_frag else ""),
                     lambda d, i=i: self._rename(at(i)(d), "noSuchField_"))
            self.add("fields-exist", "undefined __field at depth %d" % x.depth, lambda d, i=i: self._rename(at(i)(d), "__noSuchMeta_"))
        for i, x in self.pick([(i, x) for i, x in fields if x.parent in s.types and s.kind(x.parent) == "UNION"]):
            some = s.types[s.types[x.parent].members[0]]
            self.add("fields-exist", "plain field selected on union %s" % x.parent,
                     lambda d, i=i, fn=list(some.fields)[0]: self._replace(at(i)(d), FieldSel(fn, alias="onUnion_")))
        for i, x in self.pick([(i, x) for i, x in fields if x.parent in s.types and s.kind(x.parent) == "INTERFACE"]):
            only = [(o, fn) for o in s.possible_types(x.parent) for fn in s.types[o].fields if fn not in s.types[x.parent].fields]
            if only:
                o, fn = rng.choice(only)
                fdef = s.types[o].fields[fn]
                if not any(is_nn(a.type) and a.default is NODEF for a in fdef.args):
                    self.add("fields-exist", "implementer-only field %s.%s on interface %s" % (o, fn, x.parent),
                             lambda d, i=i, fn=fn, comp=s.is_composite(named_of(fdef.type)): self._replace(
                                 at(i)(d), FieldSel(fn, alias="implOnly_", selset=[FieldSel("__typename")] if comp else None)))
        for i, x in self.pick([(i, x) for i, x in composite_fields if x.depth >= 1]):
            self.add("fields-exist", "__schema below the root (depth %d)" % (x.depth + 1),
                     lambda d, i=i: at(i)(d).sel.selset.append(FieldSel("__schema", selset=[FieldSel("queryType", selset=[FieldSel("name")])])))
        # leaf selections
        for i, x in self.pick(leaf_fields):
            self.add("leaf-field-selections", "sub-selection on leaf at depth %d" % x.depth,
                     lambda d, i=i: setattr(at(i)(d).sel, "selset", [FieldSel("__typename")]))
        for i, x in self.pick(composite_fields):
            self.add("leaf-field-selections", "composite field without selection at depth %d" % x.depth,
                     lambda d, i=i: setattr(at(i)(d).sel, "selset", None))
        # arguments
        for i, x in self.pick(real_fields):
            self.add("argument-names", "unknown argument on field at depth %d" % x.depth,
                     lambda d, i=i: at(i)(d).sel.args.append(("noSuchArg_", ("int", 1))))
        for i, x in self.pick([(i, x) for i, x in real_fields if x.sel.args]):
            self.add("argument-uniqueness", "argument repeated (same value)", lambda d, i=i: at(i)(d).sel.args.append(at(i)(d).sel.args[0]))
        for i, x in self.pick(real_fields):
            f = s.fields_of(x.parent).get(x.sel.name)
            if f:
                req = [a for a in f.args if is_nn(a.type) and a.default is NODEF and any(n == a.name for n, _ in x.sel.args)]
                if req:
                    an = rng.choice(req).name
                    self.add("required-arguments", "required argument %s dropped" % an,
                             lambda d, i=i, an=an: setattr(at(i)(d).sel, "args", [p for p in at(i)(d).sel.args if p[0] != an]))
        dsites = [(i, x) for i, x in enumerate(sites)]
        for i, x in self.pick(dsites):
            self.add("required-arguments", "@skip without if on %s" % x.sel.kind, lambda d, i=i: at(i)(d).sel.directives.append(("skip", [])))
            self.add("argument-names", "unknown argument on @include on %s" % x.sel.kind,
                     lambda d, i=i: at(i)(d).sel.directives.append(("include", [("if", ("bool", True)), ("noSuchArg_", ("int", 1))])))
            self.add("argument-uniqueness", "@skip(if:, if:) on %s" % x.sel.kind,
                     lambda d, i=i: at(i)(d).sel.directives.append(("skip", [("if", ("bool", False)), ("if", ("bool", False))])))
            self.add("directives-are-defined", "undefined directive on %s at depth %d" % (x.sel.kind, x.depth),
                     lambda d, i=i: at(i)(d).sel.directives.append(("noSuchDirective_", [])))
            self.add("directives-are-unique-per-location", "@include twice on %s" % x.sel.kind,
                     lambda d, i=i: at(i)(d).sel.directives.extend([("include", [("if", ("bool", True))]), ("include", [("if", ("bool", True))])]))
            self.add("directives-are-in-valid-locations", "@deprecated on %s" % x.sel.kind,
                     lambda d, i=i: at(i)(d).sel.directives.append(("deprecated", [])))
        for oi in self.pick(range(len(doc.ops))):
            self.add("directives-are-in-valid-locations", "@skip on operation #%d" % oi,
                     lambda d, oi=oi: (d.ops[oi].directives.append(("skip", [("if", ("bool", False))])), self._force_longhand(d, oi)))
            self.add("directives-are-defined", "undefined directive on operation #%d" % oi,
                     lambda d, oi=oi: (d.ops[oi].directives.append(("noSuchDirective_", [])), self._force_longhand(d, oi)))
        for fn_ in self.pick(list(doc.frags)):
            self.add("directives-are-in-valid-locations", "@include on fragment definition %s" % fn_,
                     lambda d, fn_=fn_: d.frags[fn_].directives.append(("include", [("if", ("bool", True))])))
            self.add("directives-are-defined", "undefined directive on fragment definition", lambda d, fn_=fn_: d.frags[fn_].directives.append(("noSuchDirective_", [])))
        # values of correct type + input object field uniqueness
        lits = literal_sites(s, doc)
        for k in self.pick(range(len(lits))):
            where, typ, holder, key, v = lits[k]
            if v[0] == "var":
                continue
            w = wrong_literal(rng, s, typ)
            if w:
                self.add("values-of-correct-type", "%s: %s (%s)" % (where, w[1], tstr(typ)),
                         lambda d, k=k, w=w: self._set_literal(d, k, w[0]))
            if v[0] == "object" and v[1]:
                self.add("input-object-field-uniqueness", "%s: field repeated" % where,
                         lambda d, k=k: self._dup_object_field(d, k))
        for oi, op in enumerate(doc.ops):
            for vi in self.pick(range(len(op.vardefs))):
                n, t, dflt = op.vardefs[vi]
                w = wrong_literal(rng, s, t)
                if w and w[0] != ("null",):
                    self.add("values-of-correct-type", "variable default $%s: %s (%s)" % (n, w[1], tstr(t)),
                             lambda d, oi=oi, vi=vi, w=w: self._set_vardef(d, oi, vi, default=w[0]))
        # fragments
        fnames = list(doc.frags)
        if fnames:
            for a in self.pick(fnames):
                self.add("fragment-name-uniqueness", "fragment %s defined twice" % a, lambda d, a=a: self._dup_frag(d, a))
                self.add("fragment-spread-type-existence", "fragment %s on undefined type" % a, lambda d, a=a: setattr(d.frags[a], "typecond", "NoSuchType_"))
                leafs = [n for n in ["Int", "String"] + [t.name for t in s.types.values() if t.kind in ("ENUM", "INPUT_OBJECT", "SCALAR")]]
                self.add("fragments-on-composite-types", "fragment %s on %s" % (a, leafs[-1]), lambda d, a=a, l=rng.choice(leafs): setattr(d.frags[a], "typecond", l))
                self.add("fragment-spread-target-defined", "definition of %s deleted, spreads kept" % a, lambda d, a=a: self._del_frag(d, a))
                self.add("fragment-must-be-used", "every spread of %s deleted" % a, lambda d, a=a: self._del_spreads(d, a))
                # cycles
                self.add("fragment-spreads-must-not-form-cycles", "%s spreads itself (top level)" % a,
                         lambda d, a=a: d.frags[a].selset.append(Spread(a)))
                self.add("fragment-spreads-must-not-form-cycles", "%s spreads itself inside an inline fragment" % a,
                         lambda d, a=a: d.frags[a].selset.append(InlineFrag(None, [], [Spread(a)])))
                comp = [x for x in walk(s, doc) if x.owner is doc.frags[a] and x.sel.kind == "field" and x.sel.selset is not None
                        and x.sel.name not in ("__schema", "__type")]
                if comp:
                    x0 = comp[0]
                    f = s.fields_of(x0.parent).get(x0.sel.name)
                    if f is not None and named_of(f.type) in s.types:
                        inner_t = named_of(f.type)
                        if set(s.possible_types(inner_t)) & set(s.possible_types(doc.frags[a].typecond)):
                            idx = [j for j, y in enumerate(walk(s, doc)) if y.sel is x0.sel][0]
                            self.add("fragment-spreads-must-not-form-cycles", "%s spreads itself nested inside a field" % a,
                                     lambda d, a=a, idx=idx: at(idx)(d).sel.selset.append(Spread(a)))
            if len(fnames) >= 2:
                for a, b in self.pick([(a, b) for a in fnames for b in fnames if a != b]):
                    if self._overlap(doc.frags[a].typecond, doc.frags[b].typecond):
                        self.add("fragment-spreads-must-not-form-cycles", "2-cycle %s <-> %s" % (a, b),
                                 lambda d, a=a, b=b: (d.frags[a].selset.append(Spread(b)), d.frags[b].selset.append(Spread(a))))
        # an EXISTING fragment (already seen valid by this engine) retargeted to a type disjoint from where it is spread
        for a in self.pick(fnames):
            parents = [x.parent for x in walk(s, doc) if x.sel.kind == "spread" and x.sel.name == a and x.parent in s.types]
            for P in parents[:1]:
                disjoint = [t.name for t in s.types.values() if t.kind in ("OBJECT", "INTERFACE", "UNION") and s.possible_types(t.name)
                            and not (set(s.possible_types(t.name)) & set(s.possible_types(P)))]
                if disjoint:
                    tgt = rng.choice(disjoint)

                    def fn(d, a=a, tgt=tgt):
                        d.frags[a].typecond = tgt
                        d.frags[a].selset = [FieldSel("__typename")]
                        self._prune_unused(d)
                    self.add("fragment-spread-is-possible", "existing fragment %s retargeted to %s, spread inside %s" % (a, tgt, P), fn)
        self.add("fragment-must-be-used", "unspread fragment added",
                 lambda d: self._add_unused_frag(d))
        for i, x in self.pick(dsites):
            self.add("fragment-spread-target-defined", "spread of undefined fragment at depth %d" % x.depth,
                     lambda d, i=i: at(i)(d).container.append(Spread("NoSuchFragment_")))
            self.add("fragment-spread-type-existence", "inline fragment on undefined type at depth %d" % x.depth,
                     lambda d, i=i: at(i)(d).container.append(InlineFrag("NoSuchType_", [], [FieldSel("__typename")])))
            self.add("fragments-on-composite-types", "inline fragment on Int at depth %d" % x.depth,
                     lambda d, i=i: at(i)(d).container.append(InlineFrag("Int", [], [FieldSel("__typename")])))
            if x.parent in s.types:
                disjoint = [t.name for t in s.types.values() if t.kind in ("OBJECT", "INTERFACE", "UNION") and s.possible_types(t.name)
                            and not (set(s.possible_types(t.name)) & set(s.possible_types(x.parent)))]
                if disjoint:
                    tgt = rng.choice(disjoint)
                    self.add("fragment-spread-is-possible", "inline ... on %s (%s) inside %s (%s)" % (tgt, s.kind(tgt), x.parent, s.kind(x.parent)),
                             lambda d, i=i, tgt=tgt: at(i)(d).container.append(InlineFrag(tgt, [], [FieldSel("__typename")])))
                    self.add("fragment-spread-is-possible", "named fragment on %s spread inside %s" % (tgt, x.parent),
                             lambda d, i=i, tgt=tgt: self._spread_new_frag(d, at(i)(d).container, tgt))
        # variables
        for oi, op in enumerate(doc.ops):
            if op.vardefs:
                self.add("variable-uniqueness", "op#%d repeats $%s" % (oi, op.vardefs[0][0]),
                         lambda d, oi=oi: d.ops[oi].vardefs.append(d.ops[oi].vardefs[0]))
                comp = [t.name for t in s.types.values() if t.kind in ("OBJECT", "INTERFACE", "UNION")]
                for vi in self.pick(range(len(op.vardefs))):
                    c = rng.choice(comp)
                    wrap = rng.choice([N(c), NN(N(c)), L(N(c))])
                    self.add("variables-are-input-types", "$%s: %s" % (op.vardefs[vi][0], tstr(wrap)),
                             lambda d, oi=oi, vi=vi, wrap=wrap: self._set_vardef(d, oi, vi, typ=wrap, default=NODEF))
                    self.add("all-variable-uses-defined", "definition of $%s deleted" % op.vardefs[vi][0],
                             lambda d, oi=oi, vi=vi: d.ops[oi].vardefs.pop(vi))
                    n, t, dflt = op.vardefs[vi]
                    kinds = var_usage_kinds(doc, op, n)
                    only_nested = " [every usage nested in a list/object literal]" if kinds == {"nested"} else ""
                    for label, nt in self._incompatible(t):
                        self.add("all-variable-usages-are-allowed", "$%s: %s retyped to %s (%s)%s" % (n, tstr(t), tstr(nt), label, only_nested),
                                 lambda d, oi=oi, vi=vi, nt=nt: self._set_vardef(d, oi, vi, typ=nt, default=NODEF))
                    # retypings judged against the ACTUAL usage positions with the spec's IsVariableUsageAllowed
                    positions = var_positions(s, doc, op, n)
                    for label, nt, nd in self._subtle_retypes(t, dflt):
                        bad = [p for p in positions if not docgen.DocGen.var_allowed(nt, nd, p[0], p[1])]
                        if bad and (nd is NODEF or values.coerce_literal(s, nt, nd, None)[0] == "ok"):
                            self.add("all-variable-usages-are-allowed", "$%s: %s retyped to %s%s (%s; used at a %s position)" % (
                                n, tstr(t), tstr(nt), "" if nd is NODEF else " = " + print_value(nd), label, tstr(bad[0][0])),
                                lambda d, oi=oi, vi=vi, nt=nt, nd=nd: self._set_vardef(d, oi, vi, typ=nt, default=nd))
            self.add("all-variables-used", "op#%d declares an unused variable" % oi,
                     lambda d, oi=oi: (d.ops[oi].vardefs.append(("unusedVar_", N("Int"), NODEF)), self._force_longhand(d, oi)))
        for i, x in self.pick([(i, x) for i, x in real_fields if s.fields_of(x.parent).get(x.sel.name) and s.fields_of(x.parent)[x.sel.name].args]):
            f = s.fields_of(x.parent)[x.sel.name]
            a = rng.choice(f.args)
            self.add("all-variable-uses-defined", "undeclared variable as %s.%s(%s)%s" % (x.parent, f.name, a.name, " in fragment" if x.in_frag else ""),
                     lambda d, i=i, an=a.name: self._set_arg(at(i)(d).sel, an, ("var", "undeclared_")))
            # nested in a list / object literal
            t = a.type[1] if a.type[0] == "NN" else a.type
            if t[0] == "L":
                self.add("all-variable-uses-defined", "undeclared variable nested in list literal for %s" % a.name,
                         lambda d, i=i, an=a.name: self._set_arg(at(i)(d).sel, an, ("list", [("var", "undeclared_")])))
                # wrongly typed DECLARED variable nested in a list literal
                other = N("Boolean") if named_of(t) != "Boolean" else N("Int")
                self.add("all-variable-usages-are-allowed", "variable of type %s nested in list literal for %s: %s" % (tstr(other), a.name, tstr(a.type)),
                         lambda d, i=i, an=a.name, other=other: self._nested_wrong_var(d, at(i)(d), an, other, "list"))
            elif t[0] == "N" and t[1] in s.types and s.types[t[1]].kind == "INPUT_OBJECT":
                td = s.types[t[1]]
                f0 = td.fields[0]
                other = N("Boolean") if named_of(f0.type) != "Boolean" else N("Int")
                self.add("all-variable-usages-are-allowed", "variable of type %s nested in object literal field %s.%s: %s" % (tstr(other), td.name, f0.name, tstr(f0.type)),
                         lambda d, i=i, an=a.name, other=other, td=td, f0=f0: self._nested_wrong_var(d, at(i)(d), an, other, "object", td, f0))
        for i, x in self.pick(dsites):
            self.add("all-variable-uses-defined", "undeclared variable in @skip(if:) on %s" % x.sel.kind,
                     lambda d, i=i: at(i)(d).sel.directives.append(("skip", [("if", ("var", "undeclared_"))])))
        return self.out

    # ---- helpers used by the rewrites
    def _overlap(self, a, b):
        return bool(set(self.s.possible_types(a)) & set(self.s.possible_types(b)))

    @staticmethod
    def _rename(site, name):
        site.sel.name = name
        if site.sel.alias is None:
            site.sel.alias = None

    @staticmethod
    def _replace(site, new):
        site.container.append(new)

    @staticmethod
    def _force_longhand(d, oi):
        d.force_longhand = True

    def _add_frag(self, d, oi, root, selset):
        d.frags["ExtraRootFrag_"] = FragDef("ExtraRootFrag_", root, selset)
        d.order.append(("frag", "ExtraRootFrag_"))
        d.ops[oi].selset.append(Spread("ExtraRootFrag_"))

    def _add_unused_frag(self, d):
        d.frags["UnusedFrag_"] = FragDef("UnusedFrag_", self.s.query, [FieldSel("__typename")])
        d.order.insert(self.rng.randrange(len(d.order) + 1), ("frag", "UnusedFrag_"))

    def _spread_new_frag(self, d, container, tgt):
        d.frags["ImpossibleFrag_"] = FragDef("ImpossibleFrag_", tgt, [FieldSel("__typename")])
        d.order.append(("frag", "ImpossibleFrag_"))
        container.append(Spread("ImpossibleFrag_"))

    def _prune_unused(self, d):
        """Drop fragments and variable definitions that a rewrite left unused, so that only the targeted rule is broken."""
        changed = True
        while changed:
            changed = False
            used = set()

            def rec(selset):
                for x in selset:
                    if x.kind == "spread":
                        used.add(x.name)
                    elif x.selset:
                        rec(x.selset)
            for op in d.ops:
                rec(op.selset)
            for n, fr in d.frags.items():
                pass
            # fragments reachable from operations
            reach, todo = set(), list(used)
            while todo:
                n = todo.pop()
                if n in reach or n not in d.frags:
                    continue
                reach.add(n)
                u2 = set()

                def rec2(selset):
                    for x in selset:
                        if x.kind == "spread":
                            u2.add(x.name)
                        elif x.selset:
                            rec2(x.selset)
                rec2(d.frags[n].selset)
                todo.extend(u2)
            for n in list(d.frags):
                if n not in reach:
                    del d.frags[n]
                    d.order = [o for o in d.order if o != ("frag", n)]
                    changed = True
        # variables: keep only those still used by each operation (directly or through fragments)
        def vars_in(selset, acc):
            def val(v):
                if v[0] == "var":
                    acc.add(v[1])
                elif v[0] == "list":
                    for x in v[1]:
                        val(x)
                elif v[0] == "object":
                    for _, x in v[1]:
                        val(x)
            for x in selset:
                for _, dargs in x.directives:
                    for _, v in dargs:
                        val(v)
                if x.kind == "field":
                    for _, v in x.args:
                        val(v)
                if x.kind == "spread":
                    if x.name in d.frags:
                        vars_in(d.frags[x.name].selset, acc)
                elif x.selset:
                    vars_in(x.selset, acc)
        for op in d.ops:
            acc = set()
            vars_in(op.selset, acc)
            op.vardefs = [v for v in op.vardefs if v[0] in acc]

    @staticmethod
    def _dup_frag(d, a):
        d.dup_frags = getattr(d, "dup_frags", []) + [a]

    @staticmethod
    def _del_frag(d, a):
        del d.frags[a]
        d.order = [o for o in d.order if o != ("frag", a)]

    def _del_spreads(self, d, a):
        def rec(selset):
            selset[:] = [x for x in selset if not (x.kind == "spread" and x.name == a)]
            for x in selset:
                if x.kind != "spread" and x.selset:
                    rec(x.selset)
                    if not x.selset:
                        x.selset.append(FieldSel("__typename"))
        for op in d.ops:
            rec(op.selset)
            if not op.selset:
                op.selset.append(FieldSel("__typename"))
        for fr in d.frags.values():
            rec(fr.selset)
            if not fr.selset:
                fr.selset.append(FieldSel("__typename"))

    def _set_literal(self, d, k, lit):
        where, typ, holder, key, v = literal_sites(self.s, d)[k]
        holder[key] = lit

    def _dup_object_field(self, d, k):
        where, typ, holder, key, v = literal_sites(self.s, d)[k]
        holder[key] = ("object", list(v[1]) + [v[1][0]])

    @staticmethod
    def _set_vardef(d, oi, vi, typ=None, default="keep"):
        n, t, df = d.ops[oi].vardefs[vi]
        d.ops[oi].vardefs[vi] = (n, typ if typ is not None else t, df if default == "keep" else default)

    @staticmethod
    def _set_arg(sel, an, value):
        sel.args = [p for p in sel.args if p[0] != an] + [(an, value)]

    def _incompatible(self, t):
        """Types a variable must NOT have if it is used where a variable of type t is legal... (conservative):
        only transformations that are invalid for EVERY position that accepted t."""
        out = []
        base = t[1] if t[0] == "NN" else t
        other = "Boolean" if named_of(t) != "Boolean" else "Int"
        out.append(("other named type", smodel_replace_named(t, other)))
        if base[0] == "L":
            out.append(("non-list for list", base[1] if base[1][0] != "NN" else base[1][1]))
        else:
            out.append(("list for non-list", L(base)))
        return out

    def _subtle_retypes(self, t, dflt):
        """(label, new type, new default) candidates that differ from t only in nullability somewhere."""
        out = []

        def strip_inner(x, top=True):
            if x[0] == "NN":
                inner = strip_inner(x[1], False)
                return ("NN", inner) if top else inner
            if x[0] == "L":
                return ("L", strip_inner(x[1], False))
            return x
        si = strip_inner(t)
        if si != t:
            try:
                d = values.plain_to_literal(self.rng, self.s, si, values._gen_plain_nn(self.rng, self.s, si, 1))
                out.append(("inner non-null dropped, non-null default present", si, d))
            except Exception:  # noqa
                pass
            out.append(("inner non-null dropped", si, NODEF))
        if t[0] == "NN":
            out.append(("nullable without default", t[1], NODEF))
            out.append(("nullable with null default", t[1], ("null",)))
        return out

    def _nested_wrong_var(self, d, site, an, vtype, mode, td=None, f0=None):
        """Declare $wrongNested_: vtype in the owning operation(s) and use it nested inside a literal of another type."""
        name = "wrongNested_"
        if mode == "list":
            self._set_arg(site.sel, an, ("list", [("var", name)]))
        else:
            fields = [(f0.name, ("var", name))] + [p for p in required_fields(self.rng, self.s, td) if p[0] != f0.name]
            self._set_arg(site.sel, an, ("object", fields))
        for op in d.ops:
            op.vardefs.append((name, vtype, NODEF))
            op.selset.append(FieldSel("__typename", alias="useWrongNested_", directives=[]))
        d.force_longhand = True
        d.wrong_nested = name


def var_positions(s, doc, op, name):
    """[(position type, position has a default)] of every WHOLE-ARGUMENT usage of $name by `op` (fragments included)."""
    out, seen = [], set()
    dargs = DIRECTIVE_ARGS(s)

    def rec(selset, parent):
        for x in selset:
            for dname, dl in x.directives:
                for an, v in dl:
                    if v == ("var", name) and dname in dargs and an in dargs[dname]:
                        dd = s.directives.get(dname)
                        has_def = bool(dd and any(a.name == an and a.default is not NODEF for a in dd.args))
                        out.append((dargs[dname][an], has_def))
            if x.kind == "field":
                f = s.fields_of(parent).get(x.name) if parent in s.types else None
                if f is not None:
                    for an, v in x.args:
                        a = f.arg(an)
                        if a is not None and v == ("var", name):
                            out.append((a.type, a.default is not NODEF))
                    if x.selset:
                        rec(x.selset, named_of(f.type))
            elif x.kind == "inline":
                rec(x.selset, x.typecond or parent)
            elif x.kind == "spread" and x.name in doc.frags and x.name not in seen:
                seen.add(x.name)
                rec(doc.frags[x.name].selset, doc.frags[x.name].typecond)
    rec(op.selset, s.roots()[op.kind])
    return out


def var_usage_kinds(doc, op, name):
    """{'top', 'nested'}: how variable `name` is used by operation `op`, fragments it spreads (transitively) included:
    as a whole argument value / inside a list or object literal."""
    kinds, seen = set(), set()

    def val(v, top):
        if v[0] == "var":
            if v[1] == name:
                kinds.add("top" if top else "nested")
        elif v[0] == "list":
            for x in v[1]:
                val(x, False)
        elif v[0] == "object":
            for _, x in v[1]:
                val(x, False)

    def rec(selset):
        for x in selset:
            for _, dargs in x.directives:
                for _, v in dargs:
                    val(v, True)
            if x.kind == "field":
                for _, v in x.args:
                    val(v, True)
            if x.kind == "spread":
                if x.name not in seen and x.name in doc.frags:
                    seen.add(x.name)
                    rec(doc.frags[x.name].selset)
            elif x.selset:
                rec(x.selset)
    rec(op.selset)
    return kinds


def smodel_replace_named(t, new):
    if t[0] == "N":
        return N(new)
    return (t[0], smodel_replace_named(t[1], new))


def invalid_variant(rng, s, doc):
    """One random rule-violating rewrite of `doc` (same operation / fragment names): (rule, text) or None.  Used by the
    request-history properties (C15, C16) to put documents every rule refuses between valid ones."""
    base_text = doc.text
    try:
        cat = Catalogue(rng, s, doc, 1).build()
    except Exception:  # noqa
        return None
    rng.shuffle(cat)
    if rng.random() < 0.35:
        # rules that walk fragments (cycles, spreads, usage through fragments) first: they are the ones that keep state
        cat.sort(key=lambda c_: 0 if "fragment" in c_[0] else 1)
    for rule, site, fn, textfn in cat[:6]:
        if known_mechanism(rule, site):
            continue
        d2 = copy.deepcopy(doc)
        try:
            if fn:
                fn(d2)
            text = print_rewritten(rng, d2)
            if textfn:
                text = textfn(text)
        except Exception:  # noqa  rewrite not applicable to this copy
            continue
        if text != base_text:
            return rule, text
    return None


def print_rewritten(rng, doc2):
    style = {"multiline": False, "nl": "\n", "shorthand": not getattr(doc2, "force_longhand", False)}
    text = docgen.print_doc(doc2, rng, style)
    for a in getattr(doc2, "dup_frags", []):
        fr = doc2.frags[a]
        extra = docgen.Doc()
        extra.frags[a] = fr
        extra.order = [("frag", a)]
        text += " " + docgen.print_doc(extra, rng, style)
        docgen.print_doc(doc2, rng, style)
    return text


def classify(rule, site, resp, calls):
    """Known-finding mechanisms (narrow, structural)."""
    return None


async def run_case(ctx, rng, index):
    st = ctx.stats
    so = smodel.GenOpts(p_mutation=0.4, p_subscription=0.5, p_args=0.5, n_inputs=(1, 2))
    s = smodel.gen_schema(rng, so)
    s.directives["vtrec"] = DirectiveDef("vtrec", ["FIELD"], [smodel.Arg("x", N("Int"))])
    b = harness.Bundle(s)
    await b.build()
    cap = 2 if ctx.tier == "quick" else 6
    try:
        for _ in range(DOCS_PER_SCHEMA):
            do = docgen.DocOpts(n_ops=rng.choice([(1, 1), (2, 3)]), op_kinds=("query", "mutation", "subscription"),
                                p_spread=0.3, max_depth=4, max_fields=rng.choice([10, 20]), p_var=0.5, introspection=0.1)
            g = docgen.DocGen(rng, s, do)
            doc = g.gen_doc()
            docgen.print_doc(doc, rng, {"multiline": False, "nl": "\n", "shorthand": True})
            base_text = doc.text
            op = rng.choice(doc.ops)
            variables = docgen.gen_variables(rng, s, op, doc.no_null_vars)
            # the base document must be accepted (else C06's business)
            w0 = world_mod.World(s, 1)
            r0 = await b.engine.execute(base_text, operation_name=op.name, context={"world": w0}, variables=variables)
            if X.refused(r0, w0):
                st.inc("base-document-refused")
                continue
            cat = Catalogue(rng, s, doc, cap).build()
            for rule, site, fn, textfn in cat:
                d2 = copy.deepcopy(doc)
                try:
                    if fn:
                        fn(d2)
                    text = print_rewritten(rng, d2)
                    if textfn:
                        text = textfn(text)
                except Exception as e:  # noqa  rewrite not applicable to this copy
                    st.inc("rewrite-not-applicable")
                    continue
                if text == base_text:
                    st.inc("rewrite-noop")
                    continue
                w = world_mod.World(s, 1)
                opn = op.name if any(o.name == op.name for o in d2.ops) else None
                vars2 = dict(variables)
                if getattr(d2, "wrong_nested", None):
                    vars2[d2.wrong_nested] = True if True else None
                case = {"sdl": b.sdl, "query": text, "operation_name": opn, "variables": vars2, "rule": rule, "site": site, "base": base_text}
                try:
                    resp = await b.engine.execute(text, operation_name=opn, context={"world": w}, variables=vars2,
                                                  initial_value=w.root_object(s.roots()[op.kind]))
                except Exception as e:  # noqa
                    ctx.violation("execute-raised", "%s @ %s: %r" % (rule, site, e), case)
                    continue
                st.inc("evaluations")
                st.inc("rule:" + rule)
                st.distinct("nontrivial", text)
                ran = len(w.calls) + len(w.tr_calls) + len(w.dir_calls)
                refused = isinstance(resp, dict) and resp.get("data") is None and bool(resp.get("errors"))
                if refused and not ran:
                    # audit: refused by the rule the rewrite targets?  (a rewrite always masked by another rule would leave
                    # the targeted rule unexercised)
                    tags = {(e.get("extensions") or {}).get("tag") for e in resp["errors"] if isinstance(e, dict)}
                    if tags - {None}:
                        st.inc("refusals-carrying-a-rule-tag")
                    if TAG_OF.get(rule, rule) in tags:
                        st.inc("refused-by-targeted-rule:" + rule)
                    else:
                        st.inc("refused-by-other-rule:" + rule)
                        st.distinct("other-rule-tags:" + rule, tuple(sorted(str(t) for t in tags)))
                    continue
                mech = known_mechanism(rule, site)
                if ran:
                    ctx.violation("invalid-document-executed", "%s @ %s: %d resolver/hook calls; response=%s" % (
                        rule, site, ran, X.jdump(resp)[:200]), case, mech)
                else:
                    ctx.violation("invalid-document-not-refused", "%s @ %s: response=%s" % (rule, site, X.jdump(resp)[:300]), case, mech)
            st.sample({"base": base_text[:400], "rewrites": len(cat), "example": [cat[0][0], cat[0][1]]}, limit=2)
    finally:
        b.dispose()


TAG_OF = {"fields-exist": "field-selections-on-objects-interfaces-and-unions-types"}


def post_check(counters, distinct):
    out = []
    if not counters.get("refusals-carrying-a-rule-tag"):
        # the engine does not label its validation errors with extensions.tag (nothing in the property requires it): the
        # audit of WHICH rule refused is not available; the oracle (refused, nothing ran) does not depend on it
        return out
    rules = {k.split(":", 1)[1] for k in counters if k.startswith("rule:")}
    for rule in sorted(rules):
        n = counters.get("rule:" + rule, 0)
        hit = counters.get("refused-by-targeted-rule:" + rule, 0)
        if n >= 50 and hit == 0 and rule not in ("executable-definitions",):
            out.append("no '%s' rewrite (of %d) was refused by the rule it targets" % (rule, n))
    return out


def known_mechanism(rule, site):
    """Narrow, structural attribution to the committed known findings (known_findings.json)."""
    if rule == "fragment-spread-is-possible" and site.startswith("inline ... on "):
        return "impossible-inline-fragment-spread-accepted"
    if rule == "all-variable-usages-are-allowed" and " nested in " in site and site.startswith("variable of type "):
        return "variable-nested-in-literal-not-type-checked"
    if rule == "all-variable-usages-are-allowed" and site.endswith("[every usage nested in a list/object literal]"):
        return "variable-nested-in-literal-not-type-checked"
    if rule == "values-of-correct-type" and site.startswith("variable default $"):
        return "ill-typed-variable-default-accepted"
    return None


PROBE_SDL = """
enum Color { RED GREEN }
type Dog { name: String }
type Cat { meow: String }
type Query { dog: Dog cat: Cat ints(a: [Int]): String  col(c: Color): String }
"""
PROBES = [
    ("impossible-inline-fragment-spread-accepted", "fragment-spread-is-possible", "inline ... on Cat (OBJECT) inside Dog (OBJECT)",
     "{ dog { ... on Cat { meow } } }", {}),
    ("variable-nested-in-literal-not-type-checked", "all-variable-usages-are-allowed", "variable of type String nested in list literal for a: [Int]",
     "query($v: String) { ints(a: [1, $v]) }", {"v": "str"}),
    ("ill-typed-variable-default-accepted", "values-of-correct-type", "variable default $v: string-for-Int (Int)",
     "query($v: Int = \"abc\") { ints(a: [$v]) }", {"v": 1}),
]


async def run_probes(ctx):
    """The minimal witnesses of the known findings, run verbatim on every invocation."""
    from tartiflette import Engine, Resolver
    from vt import boot
    name = boot.fresh_schema_name("c07probe")
    calls = []

    def mk(f):
        async def r(parent, args, c, info):
            calls.append((f, args))
            return {"name": "n", "meow": "m"} if f in ("Query.dog", "Query.cat") else "x"
        Resolver(f, schema_name=name)(r)
    for f in ("Query.dog", "Query.cat", "Query.ints", "Query.col"):
        mk(f)
    e = Engine(PROBE_SDL, schema_name=name)
    await e.cook()
    for mech, rule, site, q, variables in PROBES:
        del calls[:]
        resp = await e.execute(q, variables=variables)
        ctx.stats.inc("probe_witnesses")
        refused = resp.get("data") is None and bool(resp.get("errors"))
        if calls or not refused:
            ctx.violation("invalid-document-executed", "%s @ %s: witness %s executed: %s" % (rule, site, q, X.jdump(resp)[:200]),
                          {"query": q, "variables": variables, "sdl": PROBE_SDL, "rule": rule, "site": site}, known_mechanism(rule, site))
        else:
            ctx.stats.inc("stale-witness:" + mech)
    boot.forget_schema(name)
