"""C15 — concurrent requests on one engine do not influence each other."""
import json

from vt import boot, docgen, exec_common as X, harness, refexec, sched as S, smodel, world as world_mod
from vt.values import canon

LEVEL = "exploration"
N_CASES = {"quick": 256, "thorough": 3000}
CAP = {"quick": 30, "thorough": 300}
BATCHES_PER_SCHEMA = 3
MIN_NONTRIVIAL = 30
RULE = ("case = one engine (recording query-cache decorator) x %d batches of 2-5 requests: same document with different "
        "variables / worlds / contexts / operation names, different documents, requests with injected failures (incl. the "
        "same error *instance* raised in several requests), Boolean-flipped twins of one request, syntactically broken "
        "documents and rule-violating rewrites of the base document (C07's catalogue, same fragment / operation names); "
        "35%% of the engines use a documentation-style error coercer that writes into the error it is handed; 30%% of the "
        "schemas carry a pass-through SCHEMA directive that REJECTS some requests; 15%% are @nonIntrospectable and asked "
        "introspection fields. Solo answers are anchored to the reference executor (data, C02 error accounting) so that "
        "process-wide state, which bends solo / concurrent / fresh answers alike, still shows. Each request "
        "is first answered alone, then all of the batch are started together under one controlled scheduler that "
        "interleaves their suspension points ACROSS requests (exhaustive DFS over cross-request completion orders up to "
        "a cap, then LIFO+random), then alone again, and finally on a freshly built engine. Oracle: every concurrent, "
        "post-history and fresh-engine response equals the solo response (data exactly; errors as multisets); fingerprints "
        "of every cached (document, errors) pair handed out by the cache and of the schema's request-visible state are "
        "unchanged across the batch. non-trivial = batch with >=2 executable requests and >=2 distinct cross-request "
        "release orders; distinct by (SDL, batch)") % BATCHES_PER_SCHEMA
ASSUMPTIONS = ["stdlib asyncio event loop", "pure resolvers"]
ANCHORS = [
    "tartiflette.engine:Engine.execute",
    "tartiflette.execution.context:build_execution_context",
    "tartiflette.execution.execute:execute",
    "tartiflette.execution.collect:parse_and_validate_query",
    "tartiflette.utils.errors:located_error",
    "tartiflette.coercers.variables:coerce_variables",
]


class PrefixedSched:
    def __init__(self, sched, prefix):
        self.sched, self.prefix = sched, prefix

    async def gate(self, key, multi=False):
        await self.sched.gate(self.prefix + key, multi)


class RecordingCache:
    """query_cache_decorator: dict cache that remembers every object it handed out."""

    def __init__(self):
        self.store = {}
        self.hits = self.misses = 0

    def __call__(self, fn):
        def cached(*args, **kwargs):
            # nothing is assumed about the decorated function but what functools.lru_cache assumes: hashable arguments
            from vt.props.c16 import cache_key
            k = cache_key(args, kwargs)
            if k in self.store:
                self.hits += 1
            else:
                self.misses += 1
                self.store[k] = fn(*args, **kwargs)
            return self.store[k]
        return cached

    def fingerprint(self):
        """Observable state of everything the cache holds (whatever its shape): repr + identity of each object, and for
        error objects their message / path / locations / extensions."""
        def fp(x):
            if isinstance(x, (tuple, list)):
                return (type(x).__name__, id(x) if isinstance(x, list) else None, tuple(fp(i) for i in x))
            if isinstance(x, BaseException):
                return (repr(getattr(x, "message", x)), repr(getattr(x, "path", None)), repr(getattr(x, "locations", None)),
                        repr(getattr(x, "extensions", None)), id(x))
            return (repr(x), id(x))
        return {k: fp(v) for k, v in self.store.items()}


def schema_fingerprint(schema):
    try:
        return _schema_fingerprint(schema)
    except AttributeError:
        return None     # internal layout changed: this auxiliary monitor has nothing to compare


def _schema_fingerprint(schema):
    parts = [repr(getattr(schema, "is_introspectable", None)), schema.query_operation_name,
             repr(schema.mutation_operation_name), repr(schema.subscription_operation_name)]
    for name in sorted(schema.type_definitions):
        t = schema.type_definitions[name]
        fields = getattr(t, "implemented_fields", None)
        if isinstance(fields, dict):
            parts.append("%s{%s}" % (name, ",".join("%s:%s:%x" % (fn, f.gql_type, id(f.resolver)) for fn, f in sorted(fields.items()))))
        else:
            parts.append(name)
    return "|".join(parts)


def norm(resp, own=None):
    """data exactly; errors as a sorted multiset of canonical JSON.  `own`: the schema name of the answering engine - the
    engines compared here are cooked under different names, and an error text may mention the engine's own name."""
    if not isinstance(resp, dict):
        return ("non-dict", repr(resp))
    errs = resp.get("errors")

    def dump(e):
        t = json.dumps(e, sort_keys=True, default=repr)
        return t.replace(own, "<own-schema-name>") if own else t
    return (json.dumps(resp.get("data"), sort_keys=False, default=repr),
            None if errs is None else sorted(dump(e) for e in errs))


class Item:
    """One request of a batch."""

    def __init__(self, text, op_name, variables, wseed, faults, use_root, root_t, kind):
        self.text, self.op_name, self.variables, self.wseed = text, op_name, variables, wseed
        self.faults, self.use_root, self.root_t, self.kind = faults, use_root, root_t, kind

    def describe(self):
        return {"query": self.text, "operation_name": self.op_name, "variables": self.variables, "world_seed": self.wseed,
                "faults": {k: list(v) for k, v in self.faults.items()}, "kind": self.kind}

    def coro(self, engine, s, sched, shared):
        w = world_mod.World(s, self.wseed, self.faults, sched)
        w.shared_exc = shared if shared is not None else world_mod.make_shared_exception()
        self.last_world = w
        w.deny_request = getattr(self, "deny", False)
        w.mutate_args = getattr(self, "mutate_args", False)
        root = w.root_object(self.root_t) if (self.use_root and self.root_t) else None
        return engine.execute(self.text, operation_name=self.op_name, context={"world": w, "tag": self.wseed},
                              variables=self.variables, initial_value=root)


def broken_variants(rng, text):
    choices = [text[: max(1, len(text) // 2)], text.replace("{", "", 1), text + " }", "", "query { ", text.replace(":", "", 1),
               "{ __nosuchfield_ }", "{ ...Undefined_ }", "fragment Unused_ on Query { __typename } " + text]
    return rng.choice(choices)


def wrong_type_field_variant(rng, s, doc):
    """An INVALID document: a field name that exists on some other type is selected where it does not exist."""
    import copy
    from vt.props.c07 import walk
    d2 = copy.deepcopy(doc)
    sites = [x for x in walk(s, d2) if x.sel.kind == "field" and x.sel.selset is not None and x.parent in s.types]
    rng.shuffle(sites)
    allnames = sorted({fn for t in s.types.values() if t.kind in ("OBJECT", "INTERFACE") for fn in t.fields})
    for x in sites:
        f = s.fields_of(x.parent).get(x.sel.name)
        if f is None:
            continue
        inner = smodel.named_of(f.type)
        if inner not in s.types or s.kind(inner) == "UNION":
            continue
        foreign = [n for n in allnames if n not in s.fields_of(inner)]
        if foreign:
            x.sel.selset.append(docgen.FieldSel(rng.choice(foreign), alias="wrongType_"))
            return docgen.print_doc(d2, rng, {"multiline": False, "nl": "\n", "shorthand": True})
    return None


def gen_batch(rng, s):
    items = []
    n = rng.randint(2, 5)
    base = X.gen_request(rng, s, docgen.DocOpts(max_fields=rng.choice([3, 5, 8, 12]), max_depth=rng.choice([3, 4]),
                                                n_ops=rng.choice([(1, 1), (2, 3)]), op_kinds=("query", "mutation"),
                                                p_spread=rng.choice([0.18, 0.4]), p_skipinclude=rng.choice([0.15, 0.4]),
                                                p_var=rng.choice([0.4, 0.8]), introspection=0.2))
    for i in range(n):
        r = rng.random()
        if i == 0:
            req = base
        elif r < 0.42:
            req = X.gen_request(rng, s, doc=base.doc)          # same document, other op/variables/world
            if rng.random() < 0.6:
                # the twin of the base request: same operation, same world, only the Boolean variables flipped (what a
                # memo of collected fields keyed by the document would get wrong)
                req = X.Request(base.doc, base.text, base.op, {k: (not v if isinstance(v, bool) else v) for k, v in (base.variables or {}).items()},
                                base.wseed if rng.random() < 0.5 else req.wseed, use_root=base.use_root, pass_opname=base.pass_opname)
        elif r < 0.74:
            req = X.gen_request(rng, s, docgen.DocOpts(max_fields=rng.choice([3, 5]), max_depth=3, op_kinds=("query", "mutation"),
                                                       introspection=0.2))
            if len(req.doc.ops) == 1 and base.op.name and rng.random() < 0.5 and req.op.kind == base.op.kind:
                # another document whose operation has the SAME NAME but its own variable definitions
                req.op.name = base.op.name
                docgen.print_doc(req.doc, rng, docgen.random_style(rng))
                req.text, req.pass_opname = req.doc.text, rng.random() < 0.7
        elif r < 0.9:
            inv = None
            if rng.random() < 0.6:
                # a document one specific validation rule refuses, built from the base document (same operation and
                # fragment names): whatever a rule or the cache remembers of it must not reach the valid requests
                from vt.props import c07
                inv = c07.invalid_variant(rng, s, base.doc)
                docgen.print_doc(base.doc, rng, docgen.random_style(rng)) if False else None
            if inv:
                items.append(Item(inv[1], base.op_name, base.variables, rng.randrange(10 ** 9), {}, False, None, "invalid:" + inv[0]))
            else:
                items.append(Item(broken_variants(rng, base.text), None, {}, rng.randrange(10 ** 9), {}, False, None, "broken"))
            continue
        else:
            t = wrong_type_field_variant(rng, s, base.doc)
            docgen.print_doc(base.doc, rng, {"multiline": False, "nl": "\n", "shorthand": True}) if False else None
            items.append(Item(t or broken_variants(rng, base.text), base.op_name, base.variables, rng.randrange(10 ** 9), {}, False, None,
                              "wrong-type-field" if t else "broken"))
            continue
        faults = {}
        w0, _ = X.make_worlds(s, req)
        try:
            X.run_reference(s, req, w0)
        except refexec.RefBug:
            pass
        if rng.random() < 0.45:
            if w0.insts:
                for key in rng.sample(sorted(w0.insts), min(len(w0.insts), rng.randint(1, 2))):
                    T, fname, v = w0.insts[key]
                    faults[key] = rng.choice(w0.applicable_faults(T, fname, v))
        op_name = req.op_name
        kind = "exec"
        if rng.random() < 0.08:
            op_name, kind = "NoSuchOperation_", "bad-opname"
        variables = req.variables
        if rng.random() < 0.08 and req.op.vardefs:
            variables = dict(variables, **{req.op.vardefs[0][0]: {"definitely": ["wrong"]}})
            kind = "bad-variables"
        items.append(Item(req.text, op_name, variables, req.wseed, faults, req.use_root, s.roots()[req.op.kind], kind))
        items[-1].insts = sorted(w0.insts)
        items[-1].req = req if kind == "exec" else None
    if rng.random() < 0.25:
        # hostile-but-legal resolvers that modify the argument containers they receive: nothing may be shared between
        # calls or requests.  Only for requests whose arguments are constants (a variable's coerced value is legitimately
        # one object).
        for it in items:
            if it.kind == "exec" and "$" not in (it.text if isinstance(it.text, str) else ""):
                it.mutate_args = True
    # Boolean-flipped twins of executable requests (same text, same world, every Boolean variable negated)
    for it in list(items):
        if len(items) >= 7:
            break
        req = getattr(it, "req", None)
        if it.kind == "exec" and req is not None and any(isinstance(v, bool) for v in (it.variables or {}).values()) and rng.random() < 0.5:
            v2 = {k: (not v if isinstance(v, bool) else v) for k, v in it.variables.items()}
            tw = Item(it.text, it.op_name, v2, it.wseed, dict(it.faults), it.use_root, it.root_t, "exec")
            tw.insts = list(getattr(it, "insts", []))
            tw.req = X.Request(req.doc, req.text, req.op, v2, req.wseed, use_root=req.use_root, pass_opname=req.pass_opname)
            items.append(tw)
    if "vtpass" in s.directives:
        # requests of any kind (valid, invalid, broken) that the pass-through schema directive rejects: whatever the engine
        # does with the exception must stay inside that request
        for it in items:
            if rng.random() < 0.15:
                it.deny, it.req = True, None
                it.kind += "+denied"
    execs = [it for it in items if it.kind == "exec" and getattr(it, "insts", None)]
    if len(execs) >= 2 and rng.random() < 0.12:
        # the SAME library-error instance raised inside two different requests (known finding)
        for it in rng.sample(execs, 2):
            it.faults = {rng.choice(it.insts): ("raise_shared",)}
    return items


async def run_case(ctx, rng, index):
    st = ctx.stats
    so = smodel.GenOpts(n_objects=(2, 4), fields=(2, 4), p_gate=0.15, p_mutation=0.3, n_inputs=(1, 2), p_args=0.5,
                        p_non_introspectable=0.25, p_schema_pass=0.3)
    s = smodel.gen_schema(rng, so)
    if rng.random() < 0.35:
        # context-dependent input coercion on String-typed input fields and arguments (defaults included)
        s.directives["vtctx"] = smodel.DirectiveDef("vtctx", ["INPUT_FIELD_DEFINITION", "ARGUMENT_DEFINITION"])
        for t in s.types.values():
            if t.kind == "INPUT_OBJECT":
                for a in t.fields:
                    if smodel.named_of(a.type) == "String" and rng.random() < 0.7:
                        a.directives.append(("vtctx", []))
                # a defaulted, context-dependent field that requests usually omit
                t.fields.append(smodel.Arg("ctxField_", smodel.N("String"), ("string", "d"), directives=[("vtctx", [])]))
            elif t.kind == "OBJECT":
                for f in t.fields.values():
                    for a in f.args:
                        if smodel.named_of(a.type) == "String" and rng.random() < 0.5:
                            a.directives.append(("vtctx", []))
    sdl = smodel.print_sdl(s)
    cache = RecordingCache()
    coercer_opts = {}
    if rng.random() < 0.35:
        # an error coercer written like the documentation's example: it writes into the error it was handed
        async def annotating_error_coercer(exception, error):
            if isinstance(error.get("extensions"), dict):
                error["extensions"]["seen"] = error["extensions"].get("seen", 0) + 1
            error["annotated"] = error.get("annotated", 0) + 1
            return error
        coercer_opts["error_coercer"] = annotating_error_coercer
    b = harness.Bundle(s, sdl=sdl, query_cache_decorator=rng.choice([cache, cache, "default"]), **coercer_opts)
    if b.opts["query_cache_decorator"] == "default":
        del b.opts["query_cache_decorator"]
    await b.build()
    fresh = None
    try:
        for _ in range(BATCHES_PER_SCHEMA):
            items = gen_batch(rng, s)
            case = {"sdl": sdl, "batch": [it.describe() for it in items]}
            solo, solo_raw = [], []
            try:
                for it in items:
                    solo_raw.append(await it.coro(b.engine, s, None, None))
                    solo.append(norm(solo_raw[-1], b.name))
            except Exception as e:  # noqa
                ctx.violation("execute-raised", repr(e), case)
                continue
            # the solo answers are the yardstick for everything below: anchor them to the reference executor, so that state
            # which outlives requests PROCESS-wide (and therefore bends solo, concurrent and fresh answers alike) shows
            for it, raw in zip(items, solo_raw):
                req = getattr(it, "req", None)
                if req is None or getattr(it, "mutate_args", False) or coercer_opts or not isinstance(raw, dict) \
                        or "vtctx" in s.directives \
                        or any(f[0] == "raise_shared" for f in it.faults.values()):
                    continue
                try:
                    w_ref = world_mod.World(s, it.wseed, it.faults)
                    ref = X.run_reference(s, req, w_ref)
                except refexec.RefBug:
                    continue
                if ref.request_error:
                    continue
                st.inc("solo_answers_anchored_to_reference")
                d = X.first_diff(raw.get("data"), ref.data)
                if d:
                    ctx.violation("solo-differs-from-reference", "at %s engine=%s reference=%s" % (list(d[0]), X.jdump(d[1])[:150], X.jdump(d[2])[:150]),
                                  dict(case, request=it.describe()))
                    continue
                for kind, detail in X.check_errors(ctx, req, raw, ref, case):
                    ctx.violation("solo-" + kind, detail, dict(case, request=it.describe()))
            fp_cache, fp_schema = cache.fingerprint(), schema_fingerprint(boot.schema_of(b.engine, b.name))

            async def run_once(choose):
                def make(sched):
                    shared = world_mod.make_shared_exception()   # one instance for the whole concurrent batch
                    return [it.coro(b.engine, s, PrefixedSched(sched, "q%d|" % i), shared) for i, it in enumerate(items)]
                results, sched, stray, stuck = await S.run_scheduled(make, choose, step_bound=20000)
                return (results, stray, stuck), sched

            runs, exhaustive = await S.collect_schedules(run_once, CAP[ctx.tier], rng, sample_tail=3)
            orders = set()
            for prefix, (results, stray, stuck), sched in runs:
                st.inc("evaluations")
                st.inc("gate_releases", len(sched.choices))
                orders.add(sched.release_order())
                c2 = dict(case, schedule=[c[0] for c in sched.choices])
                if stuck is not None:
                    ctx.violation("stuck", str(stuck), c2)
                    continue
                for i, (r, so_) in enumerate(zip(results, solo)):
                    if isinstance(r, BaseException):
                        ctx.violation("execute-raised", "request %d: %r" % (i, r), c2, exc=r)
                    elif norm(r, b.name) != so_:
                        shared_items = [it for it in items if any(f[0] == "raise_shared" for f in it.faults.values())]
                        mech = None
                        if len(shared_items) >= 2 and items[i] in shared_items and norm(r, b.name)[0] == so_[0]:
                            mech = "same-exception-instance-raised-in-two-requests"   # data equal, only the shared error differs
                        ctx.violation("concurrent-differs-from-solo", "request %d (%s) schedule=%s concurrent=%s solo=%s" % (
                            i, items[i].kind, c2["schedule"][:10], str(norm(r, b.name))[:300], str(so_)[:300]), c2, mech)
                for p in sched.check_log():
                    ctx.violation("gate-history", p, c2)
                if stray:
                    ctx.violation("task-alive-after-execute", repr(stray[:2]), c2)
            # afterwards: same engine again, and a fresh engine
            if fresh is None:
                fresh = harness.Bundle(s, sdl=sdl, query_cache_decorator=None, **coercer_opts)
                await fresh.build()
            # the fresh engine sees the requests in the OPPOSITE order (a history-dependent defect shows as a difference);
            # one request per batch is also answered by a brand-new engine built for it alone
            order = list(range(len(items)))[::-1]
            fresh_resp = {}
            try:
                for i in order:
                    fresh_resp[i] = norm(await items[i].coro(fresh.engine, s, None, None), fresh.name)
                j = rng.randrange(len(items))
                single = harness.Bundle(s, sdl=sdl, query_cache_decorator=None, **coercer_opts)
                await single.build()
                try:
                    one = norm(await items[j].coro(single.engine, s, None, None), single.name)
                finally:
                    single.dispose()
                if one != solo[j]:
                    ctx.violation("brand-new-engine-differs", "request %d brand-new=%s solo=%s" % (j, str(one)[:300], str(solo[j])[:300]), case)
            except Exception as e:  # noqa
                ctx.violation("execute-raised", repr(e), case)
                continue
            for i, it in enumerate(items):
                try:
                    after = norm(await it.coro(b.engine, s, None, None), b.name)
                    fr = fresh_resp[i]
                except Exception as e:  # noqa
                    ctx.violation("execute-raised", repr(e), case)
                    continue
                if after != solo[i]:
                    ctx.violation("later-request-differs", "request %d after=%s solo=%s" % (i, str(after)[:300], str(solo[i])[:300]), case)
                if fr != solo[i]:
                    ctx.violation("fresh-engine-differs", "request %d fresh=%s solo=%s" % (i, str(fr)[:300], str(solo[i])[:300]), case)
            fp2 = cache.fingerprint()
            # internal state is observed, not judged (what an engine keeps in its cache entries or on its schema object is its
            # own business - statistics, lazily filled slots, ...): the answers above decide.  Counted for the evidence.
            for k, v in fp_cache.items():
                if fp2.get(k) != v:
                    st.inc("cache_entry_fingerprint_changed_observations")
            if schema_fingerprint(boot.schema_of(b.engine, b.name)) != fp_schema:
                st.inc("schema_fingerprint_changed_observations")
            st.inc("batches")
            st.inc("requests", len(items))
            for it in items:
                st.inc("kind:" + it.kind)
            st.inc("distinct_schedules", len(orders))
            st.inc("cache_hits", cache.hits)
            if exhaustive:
                st.inc("exhaustively_enumerated")
            if sum(1 for it in items if it.kind == "exec") >= 2 and len(orders) >= 2:
                st.distinct("nontrivial", (sdl, canon([it.describe() for it in items])))
                st.sample({"batch": [dict(it.describe(), query=it.text[:200]) for it in items], "schedules": len(runs),
                           "exhaustive": exhaustive, "one_order": list(next(iter(orders)))[:14]}, limit=2)
    finally:
        b.dispose()
        if fresh is not None:
            fresh.dispose()
