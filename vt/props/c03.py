"""C03 — returned data conforms to schema and selection whatever resolvers return."""
import json

from vt import docgen, exec_common as X, garbage, refexec, smodel, values, world as world_mod
from vt.values import canon

LEVEL = "exploration"
N_CASES = {"quick": 640, "thorough": 16000}
DOCS_PER_SCHEMA = 8
WORLDS_PER_DOC = 3
MIN_NONTRIVIAL = 50
RULE = ("case = random schema x %d valid documents (every composite selection also selects __typename) x %d hostile "
        "data worlds: each value position (leaf, list, item, object, abstract) is replaced with probability 0.1-0.5 by "
        "a value drawn from a universe of %d adversarial factories (all JSON shapes, bool/int/float at and beyond 32-bit and "
        "IEEE limits, NaN/inf, numeric/blank/unicode/huge strings, bytes, tuples/sets/generators/views, Decimal/Fraction, "
        "datetimes, objects whose __str__/__bool__/__eq__/__float__ raise, subclasses of int/str/float, enums, exception "
        "instances and classes incl. unprintable ones and the library's MultipleException, callables, closed coroutines, "
        "self-referential and deep containers; a third of the worlds hand out the SAME object whenever a field instance is "
        "reached again). Oracle: execute "
        "returns; response envelope; json.dumps(allow_nan=False) succeeds; structural conformance of data to schema + "
        "selection (exact collected key list per concrete type, lists, non-null, leaf wire kinds, enum membership, "
        "possible types); every error path points at a null/hidden position; a non-null resolver return that shows up as "
        "null has an error at or below it. non-trivial = >=1 hostile value actually returned by a resolver; distinct by "
        "(SDL, document, variables, world)") % (DOCS_PER_SCHEMA, WORLDS_PER_DOC, len(garbage.FACTORIES))
ASSUMPTIONS = ["BaseException-only classes (CancelledError, SystemExit) are not injected: propagating them is correct"]
ANCHORS = [
    "tartiflette.coercers.outputs.scalar_coercer:scalar_coercer",
    "tartiflette.coercers.outputs.enum_coercer:enum_coercer",
    "tartiflette.coercers.outputs.list_coercer:list_coercer_concurrently",
    "tartiflette.coercers.outputs.abstract_coercer:ensure_valid_runtime_type",
    "tartiflette.coercers.outputs.non_null_coercer:non_null_coercer",
    "tartiflette.scalar.builtins.int:ScalarInt.coerce_output",
    "tartiflette.scalar.builtins.float:ScalarFloat.coerce_output",
    "tartiflette.scalar.builtins.string:ScalarString.coerce_output",
    "tartiflette.scalar.builtins.boolean:ScalarBoolean.coerce_output",
    "tartiflette.scalar.builtins.id:ScalarID.coerce_output",
    "tartiflette.utils.values:is_integer",
]


class CountingGarbage:
    def __init__(self, s=None):
        self.n = 0
        self.kinds = set()
        self.s = s

    def __call__(self, rng, tname=None):
        self.n += 1
        td = self.s.types.get(tname) if self.s is not None and tname else None
        if td is not None and td.kind == "ENUM" and rng.random() < 0.4:
            # a value declared by ANOTHER enum (of this schema or of the introspection schema), not by this one
            others = [v for t in self.s.types.values() if t.kind == "ENUM" and t is not td for v in t.values]
            others += ["SCALAR", "OBJECT", "INTERFACE", "UNION", "ENUM", "INPUT_OBJECT", "LIST", "NON_NULL", "QUERY", "FIELD",
                       "FRAGMENT_SPREAD", "ARGUMENT_DEFINITION"]
            v = rng.choice(others)
            self.kinds.add("foreign-enum-value")
            return v
        if td is not None and td.kind == "ENUM" and rng.random() < 0.25:
            # not a string, but PRINTS like a declared value of this enum (or is the Python constant a value is named after)
            name = rng.choice(td.values)
            self.kinds.add("prints-like-enum-value")
            return {"True": True, "False": False, "None": None}.get(name, garbage.PrintsAs(name))
        v = garbage.garbage(rng)
        self.kinds.add(type(v).__name__)
        return v


async def check_request(ctx, s, engine, req, sdl, gp):
    st = ctx.stats
    g = CountingGarbage(s)
    w = world_mod.World(s, req.wseed, garbage=g, garbage_p=gp)
    w.share_values = req.wseed % 3 == 0           # one field instance reached twice hands out the same (hostile) object
    case = dict(req.describe(), sdl=sdl, garbage_p=gp)
    stt, coerced, _ = values.coerce_variables(s, req.op.vardefs, req.variables or {})
    if stt == "err":
        return
    try:
        resp, _ = await X.run_engine(engine, s, req, w)
    except Exception as e:  # noqa
        ctx.violation("execute-raised", repr(e)[:400], case)
        return
    st.inc("evaluations")
    st.inc("hostile_values_returned", g.n)
    for k in g.kinds:
        st.distinct("hostile_type_names", k)
    ctx.log("response:", repr(resp)[:3000])
    env = X.check_envelope(resp)
    if env:
        ctx.violation("envelope", env, case)
        return
    try:
        json.dumps(resp, allow_nan=False)
    except Exception as e:  # noqa
        ctx.violation("not-json-serialisable", repr(e)[:300], case, exc=False)
        return
    try:
        conf = garbage.Conformance(s, refexec.RefExec, w, req.doc, req.op, coerced)
        problems = conf.check_root(resp["data"], s.roots()[req.op.kind])
    except refexec.RefBug:
        st.inc("refbug")
        return
    for p in problems:
        ctx.violation("nonconforming-data", p, case)
    errs = resp.get("errors") or []
    st.inc("errors_checked", len(errs))
    for e in errs:
        if not isinstance(e, dict) or not isinstance(e.get("message"), str):
            ctx.violation("error-entry-malformed", repr(e)[:300], case)
            continue
        p = e.get("path")
        if isinstance(p, list) and resp["data"] is not None:
            at = X.data_at(resp["data"], p)
            if at[0] == "value" and at[1] is not None:
                ctx.violation("error-at-non-null-position", "error path %s but data there is %s" % (p, repr(at[1])[:100]), case)
            elif at[0] == "missing":
                ctx.violation("error-path-not-in-data", "error path %s does not exist in data" % p, case)
    epaths = [tuple(e["path"]) for e in errs if isinstance(e, dict) and isinstance(e.get("path"), list)]
    if resp["data"] is not None:
        for path, v, tname in w.returns:
            if v is None:
                continue
            td = s.types.get(tname)
            if td is not None and td.kind == "SCALAR" and values.custom_scalar_output(td.impl, v) == ("ok", None):
                continue    # the custom scalar's own result coercion yields null for this value
            at = X.data_at(resp["data"], path)
            if at[0] == "value" and at[1] is None and not any(ep[:len(path)] == path for ep in epaths):
                ctx.violation("silent-null", "resolver at %s returned %s, data has null there and no error at or below"
                              % (list(path), garbage.describe(v)), case)
    elif not errs:
        ctx.violation("data-null-without-errors", "", case)
    if g.n:
        st.distinct("nontrivial", (sdl, req.text, canon(req.variables), req.wseed))
    st.sample({"query": req.text[:600], "garbage_p": gp, "hostile_values": g.n, "response": repr(resp)[:900]}, limit=2)


async def run_case(ctx, rng, index):
    so = smodel.GenOpts(p_mutation=0.2, p_nonnull=rng.choice([0.2, 0.4]))
    s, b = await X.new_bundle(rng, so)
    if index % 4 == 0:
        # every fourth case: a schema with a list of an interface whose items can be of different concrete types, and documents
        # whose merged field nodes differ from item to item
        so.n_interfaces = (1, 3)
        for _try in range(30):
            if smodel.supports_hetero(s):
                break
            b.dispose()
            s, b = await X.new_bundle(rng, so)
    try:
        for k_doc in range(DOCS_PER_SCHEMA):
            req0 = X.gen_request(rng, s, docgen.DocOpts(force_typename=True, max_fields=rng.choice([10, 20]),
                                                        max_depth=rng.choice([3, 4]), op_kinds=("query", "mutation")))
            if index % 4 == 0 and k_doc % 2 == 0 and smodel.supports_hetero(s):
                for _try in range(20):
                    if getattr(req0.doc, "hetero", 0):
                        ctx.stats.inc("requests_with_per_item_merged_nodes")
                        break
                    req0 = X.gen_request(rng, s, docgen.DocOpts(force_typename=True, max_fields=rng.choice([10, 20]), max_depth=4,
                                                                p_hetero=1.0, op_kinds=("query",)))
            for k in range(WORLDS_PER_DOC):
                req = req0 if k == 0 else X.gen_request(rng, s, doc=req0.doc)
                await check_request(ctx, s, b.engine, req, b.sdl, rng.choice([0.1, 0.25, 0.5]))
    finally:
        b.dispose()
