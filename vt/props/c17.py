"""C17 — engines registered under different schema names are independent."""
import asyncio
import copy
import itertools
import json
import os
import random
import sys

from vt import boot, docgen, exec_common as X, harness, sdlgen, smodel, world as world_mod
from vt.smodel import DirectiveDef, Field, N

LEVEL = "exploration"
N_CASES = {"quick": 48, "thorough": 1200}
MAX_SHARDS = 16
MIN_NONTRIVIAL = 10
RULE = ("case = 2-5 bundles derived from one base model so that type, field, scalar, directive and subscription names "
        "overlap while behaviour differs (fields added / removed / retyped, different resolver sets, type resolvers, a custom "
        "scalar and a tagging directive @mark whose implementations embed the bundle label, subscription sources; a "
        "SCHEMA directive @audit and @nonIntrospectable applied by some bundles only; type-level directives partly arriving "
        "through `extend` definitions; in 35%% of the cases one bundle is cooked from byte-identical SDL under another name; "
        "35%% of the bundles use an in-place annotating error coercer; co-resident bundles are partly constructed as "
        "Engine(schema_name=<another bundle's name>).cook(schema_name=<own name>); probes include per-bundle introspection "
        "aliases and rule-refused documents). Each "
        "bundle is first built ALONE in a fresh subprocess and answers a probe battery (generated queries and mutations, a "
        "subscription stream, the full introspection query). Then all bundles are registered and cooked in ONE process under "
        "distinct schema names in every registration order (all permutations for <=3, sampled for 4) with independently "
        "varied cooking orders, and answer the same battery. Oracle: answers identical to the alone run; no closure "
        "registered for another schema name is ever invoked (each closure checks the label of the requesting engine); "
        "changes of an already cooked name's registry entry are counted, not judged (internal state). "
        "non-trivial = bundle set whose alone-answers differ pairwise; distinct by the bundle set's SDLs")
ASSUMPTIONS = ["fresh schema names per ordering (re-cooking a used name is outside the statement)"]
ANCHORS = [
    "tartiflette.schema.registry:SchemaRegistry._register",
    "tartiflette.schema.registry:SchemaRegistry.register_sdl",
    "tartiflette.schema.registry:SchemaRegistry.bake_registered_objects",
    "tartiflette.schema.bakery:SchemaBakery.bake",
    "tartiflette.resolver.resolver:Resolver.bake",
    "tartiflette.resolver.type_resolver:TypeResolver.bake",
    "tartiflette.scalar.scalar:Scalar.bake",
    "tartiflette.directive.directive:Directive.bake",
    "tartiflette.subscription.subscription:Subscription.bake",
]


class MarkDirective:
    def __init__(self, label):
        self.label = label

    async def on_field_execution(self, directive_args, next_resolver, parent, args, ctx, info):
        r = await next_resolver(parent, args, ctx, info)
        w = ctx["world"]
        if w.label != self.label:
            w.anomalies.append(("registration-of-another-schema-name-used", "directive @mark", "registered for %r used by %r" % (self.label, w.label)))
        w.marks.append(self.label)
        return r


class AuditDirective:
    """@audit on SCHEMA: applied by some bundles only; marks every request of the engines whose schema carries it."""

    def __init__(self, label):
        self.label = label

    async def on_schema_execution(self, directive_args, next_directive, schema, document, parsing_errors, operation_name, context,
                                  variables, initial_value):
        w = context.get("world") if isinstance(context, dict) else None
        if w is not None:
            if w.label != self.label:
                w.anomalies.append(("registration-of-another-schema-name-used", "directive @audit", "registered for %r used by %r" % (self.label, w.label)))
            w.marks.append("audit:" + self.label)
        return await next_directive(schema, document, parsing_errors, operation_name, context, variables, initial_value)

    async def on_schema_subscription(self, directive_args, next_directive, schema, document, parsing_errors, operation_name, context,
                                     variables, initial_value):
        w = context.get("world") if isinstance(context, dict) else None
        if w is not None:
            w.marks.append("audit-sub:" + self.label)
        async for r in next_directive(schema, document, parsing_errors, operation_name, context, variables, initial_value):
            yield r


class SeqScalar:
    """A scalar implementation with per-INSTANCE state: every engine must get its own instance, also when the class is
    registered for several schema names by stacked decorators."""

    def __init__(self):
        self.n = 0

    def coerce_output(self, v):
        self.n += 1
        return "%s#%d" % (v, self.n)

    def coerce_input(self, v):
        return v

    def parse_literal(self, ast):
        return getattr(ast, "value", None)


def register_seq_scalar(names):
    """@Scalar("VtSeq", schema_name=n1) @Scalar("VtSeq", schema_name=n2) ... class SeqScalar - decorators stacked"""
    from tartiflette import Scalar
    cls = SeqScalar
    for n in names:
        cls = Scalar("VtSeq", schema_name=n)(cls)


def gen_bundles(rng):
    """Returns list of (label, model).  All derived from one base so names overlap."""
    o = smodel.GenOpts(n_objects=(2, 4), n_interfaces=(1, 2), n_unions=(0, 1), n_scalars=(1, 1), p_mutation=0.7,
                       p_subscription=0.7, p_args=0.3)
    base = smodel.gen_schema(rng, o)
    base.directives["mark"] = DirectiveDef("mark", ["FIELD_DEFINITION"])
    base.directives["mark"].impl = "custom"
    base.directives["audit"] = DirectiveDef("audit", ["SCHEMA"])
    base.directives["audit"].impl = "custom"
    base.directives["note"] = DirectiveDef("note", ["OBJECT", "INTERFACE", "UNION", "ENUM", "INPUT_OBJECT", "SCALAR"])
    out = []
    for i in range(rng.randint(2, 4)):
        m = copy.deepcopy(base)
        label = "B%d" % i
        objs_ = m.objects()
        for t in objs_:
            for f in list(t.fields.values()):
                r = rng.random()
                if r < 0.25 and not any(f.name in m.types[x].fields for x in t.interfaces) and len(t.fields) > 1:
                    del t.fields[f.name]
                elif r < 0.5:
                    f.resolver = "explicit" if (f.resolver == "default" or f.args) else "default"
                    if f.resolver == "default":
                        f.field_type_resolver = False
                elif r < 0.65 and m.is_leaf(smodel.named_of(f.type)) and not any(f.name in m.types[x].fields for x in t.interfaces):
                    f.type = N(rng.choice(["String", "Int", "Tag" if "Tag" in m.types else "ID"]))
                if rng.random() < 0.3:
                    f.directives.append(("mark", []))
            if rng.random() < 0.5:
                t.fields["only_%s" % label] = Field("only_%s" % label, N("String"), resolver="explicit")
            t.style = rng.choice(["attr", "class"] + ([] if set(t.fields) & smodel.DICT_ATTRS else ["dict"]))
        for t in m.types.values():
            if t.kind in ("INTERFACE", "UNION"):
                t.type_resolver = rng.random() < 0.5
        m.custom_default_resolver = rng.random() < 0.3
        m.custom_default_type_resolver = rng.random() < 0.3
        # schema-level state: a directive on the schema definition / non-introspectable schema, for SOME bundles only
        if rng.random() < 0.4:
            m.schema_directives = [("audit", [])]
        if rng.random() < 0.35:
            m.non_introspectable = True
        m.annotating_coercer = rng.random() < 0.35     # this bundle's engine writes into the errors it is handed
        for t in m.types.values():
            if rng.random() < 0.35:
                t.directives.append(("note", []))
        # the SDL text: definitions partly moved into `extend ...` definitions (type-level directives included)
        m.sdl_text = "\n\n".join(sdlgen.chunks(random.Random(rng.random()), m, rng.choice([0.0, 0.5, 0.8]))) + "\n"
        out.append((label, m))
    if rng.random() < 0.35:
        # a bundle cooked from BYTE-IDENTICAL SDL under another schema name, with its own registrations
        label, (_, m0) = "B%d" % len(out), rng.choice(out)
        out.append((label, copy.deepcopy(m0)))
    return out


def gen_probes(rng, s):
    """Deterministic probe battery for one model: list of request descriptions."""
    probes = []
    kinds = ["query"] * 5 + (["mutation"] * 2 if s.mutation else [])
    for k in kinds:
        req = X.gen_request(rng, s, docgen.DocOpts(op_kinds=(k,), max_fields=10, max_depth=3))
        probes.append(req)
    sub = None
    if s.subscription:
        sub = X.gen_request(rng, s, docgen.DocOpts(op_kinds=("subscription",), max_fields=6, max_depth=3))
    return probes, sub


async def answer(bundle, s, label, probes, sub):
    """Run the battery on a cooked bundle; returns a JSON-able list."""
    out = []
    e = bundle.engine
    anomalies = []
    for req in probes:
        w = world_mod.World(s, req.wseed)
        w.label, w.marks = label, []
        root = w.root_object(s.roots()[req.op.kind]) if req.use_root else None
        try:
            r = await e.execute(req.text, operation_name=req.op_name, context={"world": w}, variables=req.variables, initial_value=root)
        except Exception as ex:  # noqa
            r = {"raised": repr(ex)}
        out.append({"response": r, "marks": w.marks, "calls": len(w.calls)})
        anomalies.extend(w.anomalies)
    if sub is not None:
        w = world_mod.World(s, sub.wseed)
        w.label, w.marks = label, []
        w.events = ["obj", "obj", "null"]
        got = []
        try:
            async for r in e.subscribe(sub.text, operation_name=sub.op_name, context={"world": w}, variables=sub.variables):
                got.append(r)
                if len(got) > 10:
                    break
        except Exception as ex:  # noqa
            got.append({"raised": repr(ex)})
        out.append({"stream": got, "marks": w.marks})
        anomalies.extend(w.anomalies)
    w = world_mod.World(s, 7)
    w.label, w.marks = label, []
    r = await e.execute("{ vtModField }", context={"world": w})
    out.append({"module_field": r, "marks": w.marks})
    out.append({"stateful_scalar": [await e.execute("{ vtSeq }", context={"world": w}) for _ in range(3)]})
    # introspection root fields under aliases and at positions that differ from bundle to bundle, and documents the
    # validation rules refuse (their errors carry rule-level extensions): errors must be this engine's own
    pad = " " * (1 + len(label) + sum(map(ord, label)) % 7)
    for q in ("{%si_%s: __schema { queryType { name } } }" % (pad, label),
              "{%st_%s: __type(name: \"%s\") { name kind } }" % (pad, label, s.query),
              "{%snoSuchField_%s }" % (pad, label),
              "{%s__typename(bogus_%s: 1) }" % (pad, label)):
        r = await e.execute(q, context={"world": world_mod.World(s, 7)})
        out.append({"probe": q, "response": r})
    r = await e.execute(sdlgen.INTROSPECTION_QUERY)
    types = sorted((r.get("data") or {}).get("__schema", {}).get("types", []), key=lambda t: t["name"])
    for t in types:
        for k in ("fields", "inputFields", "enumValues", "possibleTypes", "interfaces"):
            if isinstance(t.get(k), list):
                t[k] = sorted(t[k], key=lambda x: x.get("name") or "")
    out.append({"introspection_types": types, "errors": r.get("errors")})
    anomalies = [a for a in anomalies if a[0] == "registration-of-another-schema-name-used"]
    # the engine's own schema name differs between the alone run and the co-resident run: not part of the comparison
    return strip_own_name(json.loads(X.jdump(out)), bundle.name), anomalies


def label_coercer(label):
    async def annotating_error_coercer(exception, error):
        """Written like the documentation's example: annotates the error (and its extensions) in place."""
        if isinstance(error.get("extensions"), dict):
            error["extensions"]["by"] = label
        error["by"] = label
        return error
    return annotating_error_coercer


def strip_own_name(x, name):
    """Replace the engine's own schema name inside error MESSAGES only."""
    if isinstance(x, dict):
        return {k: (v.replace(name, "<own-schema-name>") if k == "message" and isinstance(v, str) else strip_own_name(v, name)) for k, v in x.items()}
    if isinstance(x, list):
        return [strip_own_name(v, name) for v in x]
    return x


def make_bundle(label, m):
    # the same user module with the same config for every bundle (its bake() registers per schema name)
    opts = {}
    if getattr(m, "annotating_coercer", False):
        opts["error_coercer"] = label_coercer(label)
    b = harness.Bundle(m, label=label, sdl=getattr(m, "sdl_text", None), name_prefix="c17", modules=[{"name": "vt.c17mod", "config": {"root": m.query}}],
                       **opts)
    return b


def register(b):
    from tartiflette import Directive
    b.register()
    Directive("mark", schema_name=b.name)(MarkDirective(b.label))
    Directive("audit", schema_name=b.name)(AuditDirective(b.label))


def registry_fingerprint(name):
    from tartiflette.schema.registry import SchemaRegistry
    try:
        info = SchemaRegistry.find_schema_info(name)
    except Exception:  # noqa  (not registered yet / lookup API changed: nothing to fingerprint)
        return None
    if not isinstance(info, dict):
        return None
    out = {}
    for k, v in info.items():
        if isinstance(v, dict):
            out[k] = sorted((n, id(o)) for n, o in v.items())
        elif k == "sdl":
            out[k] = hash(v)
        else:
            out[k] = id(v)
    return out


async def alone_main(seed, index, variant):
    """Subprocess entry: build ONE bundle in a fresh process, print its answers."""
    rng = case_rng_local(seed, index)
    bundles = gen_bundles(rng)
    batteries = [gen_probes(rng, m) for _, m in bundles]
    label, m = bundles[variant]
    b = make_bundle(label, m)
    register(b)
    register_seq_scalar([b.name])
    await b.cook()
    ans, anomalies = await answer(b, m, label, *batteries[variant])
    sys.stdout.write("VT-ANSWER " + json.dumps({"answers": ans, "anomalies": anomalies}) + "\n")


def case_rng_local(seed, index):
    return random.Random("C17|%s|%s" % (seed, index))


async def run_alone(seed, index, variant):
    env = dict(os.environ, PYTHONHASHSEED="0", PYTHONDONTWRITEBYTECODE="1", PYTHONPATH=boot.VERIF)
    p = await asyncio.create_subprocess_exec(sys.executable, "-m", "vt.props.c17", "alone", str(seed), str(index), str(variant),
                                             cwd=boot.VERIF, env=env, stdout=asyncio.subprocess.PIPE, stderr=asyncio.subprocess.PIPE)
    try:
        out, err = await asyncio.wait_for(p.communicate(), 300)
    except asyncio.TimeoutError:
        p.kill()
        raise RuntimeError("alone subprocess timed out")
    for line in out.decode("utf-8", "replace").splitlines():
        if line.startswith("VT-ANSWER "):
            return json.loads(line[len("VT-ANSWER "):])
    raise RuntimeError("alone subprocess gave no answer: %s" % err.decode("utf-8", "replace")[-1500:])


_DEFAULT_USED = []


async def short_lived_engine(st):
    """An engine built through create_engine for yet another schema name comes and goes (garbage collection included)."""
    from tartiflette import create_engine
    import gc
    tmpname = boot.fresh_schema_name("c17tmp")
    tmp = await create_engine("type Query { a: Int }", schema_name=tmpname)
    await tmp.execute("{ a }")
    del tmp
    gc.collect()
    boot.forget_schema(tmpname)
    st.inc("short_lived_engines_collected")


async def run_case(ctx, rng, index):
    st = ctx.stats
    rng = case_rng_local(ctx.seed, index)      # same stream as the subprocess
    bundles = gen_bundles(rng)
    batteries = [gen_probes(rng, m) for _, m in bundles]
    k = len(bundles)
    sdls = [smodel.print_sdl(m) for _, m in bundles]
    case = {"sdls": sdls}
    alone = await asyncio.gather(*[run_alone(ctx.seed, index, v) for v in range(k)])
    for v, a in enumerate(alone):
        if a["anomalies"]:
            ctx.violation("foreign-registration-used", "alone run of bundle %d: %s" % (v, a["anomalies"][:2]), case)
    st.inc("alone_subprocesses", k)
    perms = list(itertools.permutations(range(k)))
    if k == 4:
        perms = rng.sample(perms, 4 if ctx.tier == "quick" else 10)
    elif ctx.tier == "quick":
        perms = rng.sample(perms, min(len(perms), 3))
    rng2 = random.Random(rng.random())
    for reg_order in perms:
        cook_order = list(reg_order)
        if rng2.random() < 0.6:
            rng2.shuffle(cook_order)
        interleave = rng2.random() < 0.5
        bs = {v: make_bundle(*bundles[v]) for v in range(k)}
        for v in range(k):
            if rng2.random() < 0.3:
                # constructed under ANOTHER bundle's schema name, cooked under its own: cook(schema_name=) decides
                bs[v].ctor_name = bs[rng2.choice([u for u in range(k) if u != v])].name
                st.inc("bundles_constructed_under_a_foreign_name")
        mode = rng2.choice(["sequential", "sequential", "concurrent+failing"])
        default_v = rng2.choice(range(k)) if rng2.random() < 0.3 else None
        if default_v is not None and _DEFAULT_USED:
            default_v = None        # a schema name is used once per process (ASSUMPTIONS): "default" too
        if default_v is not None:
            _DEFAULT_USED.append(True)
            # one bundle lives under the schema name every API call uses when none is given
            boot.forget_schema("default")
            bs[default_v].name = "default"
            for v in range(k):
                if getattr(bs[v], "ctor_name", None) == "default" or v == default_v:
                    bs[v].ctor_name = None
            st.inc("orderings_with_a_default_named_bundle")
        c2 = dict(case, registration_order=list(reg_order), cook_order=cook_order, interleaved=interleave, cooking=mode,
                  default_named=default_v)
        try:
            cooked = []
            # one class registered as scalar implementation for every co-resident name by stacked decorators
            register_seq_scalar([bs[v].name for v in reg_order])
            if mode == "concurrent+failing":
                # all cooks in flight at once (the user module's bake suspends), together with an engine whose SDL is refused:
                # a failing cook must leave the registrations of the other names alone
                for v in reg_order:
                    register(bs[v])
                if rng2.random() < 0.5:
                    await short_lived_engine(st)
                broken = harness.Bundle(bundles[0][1], sdl="type Query { a: NoSuchType_ }", name_prefix="c17broken",
                                        modules=[{"name": "vt.c17mod", "config": {"root": "Query"}}])
                register_seq_scalar([broken.name])
                order = [bs[v].cook() for v in cook_order]
                order.insert(rng2.randrange(len(order) + 1), broken.cook())
                res = await asyncio.gather(*order, return_exceptions=True)
                broken.dispose()
                bad = [r for r in res if isinstance(r, BaseException)]
                st.inc("concurrent_cooks_with_a_failing_one")
                if len(bad) != 1:
                    raise (bad[0] if len(bad) > 1 else RuntimeError("the refused SDL was accepted"))
                cooked = list(cook_order)
            elif interleave:
                # register A, cook A, register B, cook B ... in cook order
                for v in cook_order:
                    fps = {u: registry_fingerprint(bs[u].name) for u in cooked}
                    register(bs[v])
                    await bs[v].cook()
                    for u in cooked:
                        if registry_fingerprint(bs[u].name) != fps[u]:
                            st.inc("registry_entry_changed_observations")    # internal state, not the property: the answers decide
                    cooked.append(v)
            else:
                for v in reg_order:
                    register(bs[v])
                if rng2.random() < 0.5:
                    await short_lived_engine(st)
                for v in cook_order:
                    fps = {u: registry_fingerprint(bs[u].name) for u in cooked}
                    await bs[v].cook()
                    for u in cooked:
                        if registry_fingerprint(bs[u].name) != fps[u]:
                            st.inc("registry_entry_changed_observations")    # internal state, not the property: the answers decide
                    cooked.append(v)
        except Exception as e:  # noqa
            ctx.violation("co-resident-build-failed", repr(e)[:300], c2)
            for b in bs.values():
                b.dispose()
            continue
        try:
            for v in rng2.sample(range(k), k):
                label, m = bundles[v]
                ans, anomalies = await answer(bs[v], m, label, *batteries[v])
                st.inc("evaluations")
                st.inc("probe_answers_compared", len(ans))
                if anomalies:
                    ctx.violation("foreign-registration-used", "bundle %d (%s): %s" % (v, label, anomalies[:2]), c2)
                if ans != alone[v]["answers"]:
                    for i, (x, y) in enumerate(zip(ans, alone[v]["answers"])):
                        if x != y:
                            d = X.first_diff(x, y)
                            ctx.violation("co-resident-differs-from-alone", "bundle %d (%s) probe %d at %s: together=%s alone=%s" % (
                                v, label, i, list(d[0]) if d else "?", X.jdump(d[1])[:150] if d else "", X.jdump(d[2])[:150] if d else ""), c2)
                            break
        finally:
            for b in bs.values():
                b.dispose()
        st.inc("orderings")
    answers = [json.dumps(a["answers"], sort_keys=True) for a in alone]
    if len(set(answers)) == len(answers):
        st.distinct("nontrivial", tuple(sdls))
    st.sample({"bundles": k, "orderings": [list(p) for p in perms][:4], "sdl_0": sdls[0][:600]}, limit=2)


if __name__ == "__main__":
    if sys.argv[1] == "alone":
        boot.init()
        asyncio.run(alone_main(int(sys.argv[2]), int(sys.argv[3]), int(sys.argv[4])))
