"""C02 — field failures are contained: null propagation and error accounting."""
import itertools

from vt import docgen, exec_common as X, refexec, smodel
from vt.values import canon

LEVEL = "fault_enumeration"
N_CASES = {"quick": 320, "thorough": 6400}
DOCS_PER_SCHEMA = 3
MAX_PAIRS = 25
MAX_SUBSETS = 10
MIN_NONTRIVIAL = 50
RULE = ("case = random schema (non-null density varied 0.15-0.7) x %d small valid documents; for each request the "
        "fault-free reference run discovers every resolver instance (explicit and default-resolved); then EVERY single "
        "fault point x EVERY applicable kind {raise, raise library error with extensions, exception returned as value, "
        "null, unserialisable leaf, non-list for list, unknown runtime type, foreign runtime type} at field level and "
        "at every list-item position is injected one at a time (exhaustive), then up to %d random pairs and %d random "
        "subsets; further fault kinds: unprintable exceptions and empty / nested MultipleException raised or returned, "
        "duck-typed coercible exceptions, failures of argument hooks and of input-field hooks (plain and library-derived, on "
        "explicitly written values and on SDL defaults), custom scalars whose result coercion yields null, introspection "
        "fields of @nonIntrospectable schemas, lists of 513-1030 items with faults beyond index 500. Oracle: data == reference propagation result exactly; every reported error maps to a failure the "
        "reference also finds (path incl. list indices, location inside the merged field nodes, library errors keep "
        "message+extensions); every visible nulled position has an explaining error. non-trivial = a faulted execution "
        "whose reference has >=1 error; distinct by (SDL, document, variables, world, fault set)") % (DOCS_PER_SCHEMA, MAX_PAIRS, MAX_SUBSETS)
ASSUMPTIONS = ["libgraphqlparser replaced by the vt drop-in parser",
               "each injected exception is a fresh instance, except the 'raise_shared' faults (one instance raised at two places: known finding)"]
ANCHORS = [
    "tartiflette.coercers.outputs.common:handle_field_error",
    "tartiflette.coercers.outputs.common:complete_value_catching_error",
    "tartiflette.coercers.outputs.non_null_coercer:non_null_coercer",
    "tartiflette.coercers.outputs.list_coercer:list_coercer_concurrently",
    "tartiflette.coercers.outputs.list_coercer:list_coercer_sequentially",
    "tartiflette.execution.execute:execute_operation",
    "tartiflette.execution.context:ExecutionContext.add_error",
    "tartiflette.execution.response:build_response",
    "tartiflette.utils.errors:located_error",
    "tartiflette.utils.errors:extract_exceptions_from_results",
    "tartiflette.types.exceptions.tartiflette:TartifletteError.coerce_value",
    "tartiflette.coercers.common:Path.as_list",
    "tartiflette.coercers.outputs.abstract_coercer:ensure_valid_runtime_type",
]


async def run_faulted(ctx, s, engine, req, faults, sdl, arg_faults=(), arg_kind="raise", input_faults=()):
    st = ctx.stats
    w_ref, w_eng = X.make_worlds(s, req, faults)
    for w in (w_ref, w_eng):
        w.arg_faults, w.arg_fault_kind, w.input_faults = set(arg_faults), arg_kind, set(input_faults)
    n_shared = sum(1 for f in faults.values() if f[0] == "raise_shared")
    mech = None
    if n_shared:
        from vt.world import make_shared_exception
        w_eng.shared_exc = make_shared_exception()
    case = dict(req.describe(), sdl=sdl, faults={k: list(v) for k, v in faults.items()})
    if arg_faults:
        case.update(argument_hook_faults=sorted(arg_faults), argument_hook_fault_kind=arg_kind)
        st.inc("argument_stage_faults:" + arg_kind)
    if input_faults:
        case.update(input_field_hook_faults=sorted(input_faults), argument_hook_fault_kind=arg_kind)
        st.inc("input_field_stage_faults:" + arg_kind)
    try:
        ref = X.run_reference(s, req, w_ref)
    except refexec.RefBug as e:
        st.inc("refbug")
        return
    if ref.request_error:
        return
    try:
        resp, _ = await X.run_engine(engine, s, req, w_eng)
    except Exception as e:  # noqa
        ctx.violation("execute-raised", repr(e), case)
        return
    # the shared instance counts as "raised twice" when it was actually raised >= 2 times (two fault points, or one
    # fault point reached through two aliases / list items)
    if sum(1 for k in w_eng.fired if faults.get(k, ("",))[0] == "raise_shared") >= 2:
        mech = "same-exception-instance-raised-twice"
    st.inc("evaluations")
    kinds = "+".join(sorted(f[0] + ("@item" if len(f) > 1 and f[1] else "") for f in faults.values()))
    st.inc("faultkind:" + kinds if len(faults) == 1 else "faults:%d" % len(faults))
    env = X.check_envelope(resp)
    if env:
        ctx.violation("envelope", env, case)
        return
    ctx.log("faults:", faults)
    ctx.log("engine:", X.jdump(resp)[:3000])
    ctx.log("reference:", X.jdump(ref.data)[:2000], ref.errors)
    d = X.first_diff(resp["data"], ref.data)
    if d:
        ctx.violation("data-differs", "faults=%s at %s engine=%s reference=%s" % (
            sorted(faults.items())[:3], list(d[0]), X.jdump(d[1])[:160], X.jdump(d[2])[:160]), case)
        return
    if ref.errors and not resp.get("errors"):
        ctx.violation("missing-errors", "faults=%s reference errors %s" % (sorted(faults.items())[:3], ref.errors[:3]), case)
        return
    if not ref.errors and resp.get("errors"):
        ctx.violation("unexpected-errors", "faults=%s %s" % (sorted(faults.items())[:3], X.jdump(resp["errors"])[:300]), case)
        return
    for kind, detail in X.check_errors(ctx, req, resp, ref, case):
        # the known finding only explains misattributed paths/locations of the shared instance
        m = mech if kind in ("null-unexplained", "location-outside-field", "error-for-no-failure") else None
        if kind == "location-outside-field[sdl-default]":
            m = "input-hook-failure-on-sdl-default-located-in-sdl"
        ctx.violation(kind, "faults=%s %s" % (sorted(faults.items())[:3], detail), case, m)
    st.inc("errors_checked", len(resp.get("errors") or []))
    if ref.errors:
        st.distinct("nontrivial", (sdl, req.text, canon(req.variables), req.wseed, sorted(faults.items())))
        depth = max((len(e.path) - len(e.nulled_at) for e in ref.errors if e.nulled_at is not None), default=0)
        st.inc("propagation_distance:%d" % min(depth, 5))
        if ref.data is None:
            st.inc("data_nulled")
        st.sample({"query": req.text[:800], "variables": req.variables, "faults": {k: list(v) for k, v in faults.items()},
                   "response": X.jdump(resp)[:1200]}, limit=2)


async def run_case(ctx, rng, index):
    so = smodel.GenOpts(p_nonnull=rng.choice([0.15, 0.3, 0.5, 0.7]), p_mutation=0.3, p_gate=rng.choice([0.0, 0.25, 0.3]),
                        n_inputs=rng.choice([(0, 2), (1, 3)]), p_args=rng.choice([0.35, 0.6]), p_non_introspectable=0.15)
    s, b = await X.new_bundle(rng, so)
    try:
        for _ in range(DOCS_PER_SCHEMA):
            req = X.gen_request(rng, s, docgen.DocOpts(max_fields=rng.choice([6, 10, 14]), max_depth=3,
                                                       op_kinds=("query", "mutation"), introspection=0.25))
            if rng.random() < 0.12:
                req.world_opts = {"p_long": 0.08}     # size boundaries: lists of 513 / 600 / 1030 leaves
            w0, _w = X.make_worlds(s, req)
            try:
                ref0 = X.run_reference(s, req, w0)
            except refexec.RefBug:
                ctx.stats.inc("refbug")
                continue
            if ref0.request_error:
                continue
            points = []
            for key, (T, fname, v) in w0.insts.items():
                for fault in w0.applicable_faults(T, fname, v):
                    points.append((key, fault))
            ctx.stats.inc("fault_points", len(points))
            ctx.stats.inc("instances", len(w0.insts))
            if len(w0.insts) > 40 or len(points) > 400:
                far = [p for p in points if len(p[1]) > 1 and p[1][1] and p[1][1][0] >= 500]
                points = rng.sample(points, min(len(points), 200)) + rng.sample(far, min(len(far), 24))
                ctx.stats.inc("fault_points_in_long_lists", min(len(far), 24))
            for key, fault in points:
                await run_faulted(ctx, s, b.engine, req, {key: fault}, b.sdl)
            # failures at the ARGUMENT stage: the hook of a directive on an argument definition raises (a plain exception,
            # or one derived from the library's error class), alone and together with a resolver fault
            gated = sorted({(f.name, a.name) for t in s.objects() for f in t.fields.values() for a in f.args
                            if any(d[0] == "vtgate" for d in a.directives)})
            # ... and at the INPUT-FIELD stage (the hook of a directive on an input field definition refuses a value written
            # as a literal; requests with variables are left out: there the refusal belongs to variable coercion)
            if not any(s.kind(smodel.named_of(vd[1])) == "INPUT_OBJECT" for vd in req.op.vardefs):
                gin = sorted({"%s.%s" % (t.name, a.name) for t in s.types.values() if t.kind == "INPUT_OBJECT" for a in t.fields
                              if any(d[0] == "vtgate" for d in a.directives)})
                # only fields whose hook this request actually reaches; explicitly written values first, SDL defaults second
                explicit, dflt = [], []
                for gi in gin:
                    wt, _ = X.make_worlds(s, req)
                    wt.input_faults = {gi}
                    try:
                        rt = X.run_reference(s, req, wt)
                    except refexec.RefBug:
                        continue
                    hits = [e_ for e_ in rt.errors if e_.detail == "in:%s" % gi]
                    if hits:
                        (dflt if any(e_.sdl_default for e_ in hits) else explicit).append(gi)
                for gi in rng.sample(explicit, min(len(explicit), 2)) + rng.sample(dflt, min(len(dflt), 1)):
                    for kind in ("raise", "raise_tf"):
                        await run_faulted(ctx, s, b.engine, req, {}, b.sdl, (), kind, [gi])
                    ctx.stats.inc("input_field_faults_on_explicit_values" if gi in explicit else "input_field_faults_on_sdl_defaults")
            for ga in rng.sample(gated, min(len(gated), 3)):
                for kind in ("raise", "raise_tf"):
                    await run_faulted(ctx, s, b.engine, req, {}, b.sdl, [ga], kind)
                if points:
                    await run_faulted(ctx, s, b.engine, req, dict([rng.choice(points)]), b.sdl, [ga], rng.choice(["raise", "raise_tf"]))
            if len(points) >= 2:
                pairs = [tuple(rng.sample(points, 2)) for _ in range(MAX_PAIRS)]
                for (k1, f1), (k2, f2) in pairs:
                    if k1 != k2:
                        await run_faulted(ctx, s, b.engine, req, {k1: f1, k2: f2}, b.sdl)
                # the SAME exception instance raised by two different field instances (known finding)
                insts = sorted(w0.insts)
                if len(insts) >= 2:
                    k1, k2 = rng.sample(insts, 2)
                    await run_faulted(ctx, s, b.engine, req, {k1: ("raise_shared",), k2: ("raise_shared",)}, b.sdl)
                    await run_faulted(ctx, s, b.engine, req, {k1: ("raise_shared",)}, b.sdl)
                for _ in range(MAX_SUBSETS):
                    sub = rng.sample(points, min(len(points), rng.randint(3, 6)))
                    await run_faulted(ctx, s, b.engine, req, dict(sub), b.sdl)
    finally:
        b.dispose()


PROBE_SDL = "type Query { a: String b: String c: String }"


async def run_probes(ctx):
    """Minimal witness of the known finding: one library-error INSTANCE raised by two fields."""
    from tartiflette import Engine, Resolver
    from vt import boot
    from vt.world import make_shared_exception
    name = boot.fresh_schema_name("c02probe")
    shared = make_shared_exception()
    for f in ("a", "b"):
        async def r(parent, args, c, info):
            raise shared
        Resolver("Query." + f, schema_name=name)(r)
    e = Engine(PROBE_SDL, schema_name=name)
    await e.cook()
    resp = await e.execute("{ a b c }")
    ctx.stats.inc("probe_witnesses")
    paths = sorted(tuple(x.get("path") or ()) for x in resp.get("errors") or [])
    if paths != [("a",), ("b",)]:
        ctx.violation("null-unexplained", "witness { a b } with one exception instance raised by both: error paths %s" % (paths,),
                      {"sdl": PROBE_SDL, "query": "{ a b c }"}, "same-exception-instance-raised-twice")
    else:
        ctx.stats.inc("stale-witness:same-exception-instance-raised-twice")
    boot.forget_schema(name)
    # witness of the second known finding: an input-field hook refusing an SDL default with a plain exception
    from tartiflette import Directive
    name2 = boot.fresh_schema_name("c02probe2")

    class Refuse:
        async def on_post_input_coercion(self, directive_args, next_directive, parent_node, value, c):
            v = await next_directive(parent_node, value, c)
            if v is not None:
                raise ValueError("refused")
            return v
    Directive("g", schema_name=name2)(Refuse())

    async def ra(parent, args, c, info):
        return "x"
    Resolver("Query.a", schema_name=name2)(ra)
    sdl2 = 'directive @g on INPUT_FIELD_DEFINITION\n\n\n\ninput I {\n  n: String = "d" @g\n  m: Int\n}\n\ntype Query {\n  a(A: I): String\n}\n'
    e2 = Engine(sdl2, schema_name=name2)
    await e2.cook()
    q2 = "{ a(A: {m: 1}) }"
    r2 = await e2.execute(q2)
    ctx.stats.inc("probe_witnesses")
    locs = [l for x in r2.get("errors") or [] for l in x.get("locations") or []]
    if any(l.get("line", 1) > 1 for l in locs):
        ctx.violation("location-outside-field", "witness %s with @g refusing the SDL default of I.n: locations %s lie outside the one-line query" % (q2, locs),
                      {"sdl": sdl2, "query": q2}, "input-hook-failure-on-sdl-default-located-in-sdl")
    else:
        ctx.stats.inc("stale-witness:input-hook-failure-on-sdl-default-located-in-sdl")
    # control: the same refusal for an explicitly written value is located inside the query
    r3 = await e2.execute('{ a(A: {n: "x"}) }')
    locs3 = [l for x in r3.get("errors") or [] for l in x.get("locations") or []]
    if not r3.get("errors") or any(l.get("line") != 1 for l in locs3):
        ctx.violation("location-outside-field", "explicit value refused by an input-field hook: %s" % X.jdump(r3)[:300], {"sdl": sdl2, "query": '{ a(A: {n: "x"}) }'})
    boot.forget_schema(name2)
