"""C08 — results do not depend on resolver scheduling or concurrency settings."""
import itertools

from vt import docgen, exec_common as X, harness, refexec, sched as S, smodel, world as world_mod
from vt.values import canon

LEVEL = "exploration"
N_CASES = {"quick": 160, "thorough": 800}
CAP = {"quick": 40, "thorough": 200}
REQS_PER_SCHEMA = 3
MIN_NONTRIVIAL = 30
RULE = ("case = random small schema with @vtgate suspension points on fields and arguments x the 2x2x2 engine "
        "configurations (coerce_list_concurrently, coerce_parent_concurrently, gather/sequential arguments coercer; "
        "per-field @Resolver overrides present in half of the schemas) x %d requests (with and without injected faults); "
        "every user coroutine (resolver, custom default resolver, field hook, argument hook) parks on a scheduler gate; "
        "the driver releases one gate at a time when the loop is quiescent; completion orders are enumerated exhaustively "
        "by DFS over choice prefixes (stateless replay) up to a per-(request,config) cap, then LIFO + random policies. "
        "Oracle: data identical to the reference in every run; C02 error accounting per run; each gate started, released "
        "and resumed exactly once, none left parked; no user code (resolver, hook) suspended at return or entered "
        "afterwards; never stuck - incl. one request in four cases with root-level lists of 128 / 130 objects each selecting "
        "a nested list. non-trivial = a (request, config) with >= 2 distinct release orders; distinct by (SDL, document, "
        "variables, world, faults, config)") % REQS_PER_SCHEMA
ASSUMPTIONS = ["stdlib asyncio event loop (loop._ready used for quiescence detection)",
               "resolvers are pure functions of (parent identity, field, args)"]
ANCHORS = [
    "tartiflette.execution.execute:execute_fields",
    "tartiflette.execution.execute:execute_fields_serially",
    "tartiflette.coercers.outputs.list_coercer:list_coercer_concurrently",
    "tartiflette.coercers.outputs.list_coercer:list_coercer_sequentially",
    "tartiflette.coercers.arguments:coerce_arguments",
    "tartiflette.resolver.default:gather_arguments_coercer",
    "tartiflette.resolver.default:sync_arguments_coercer",
    "tartiflette.coercers.variables:coerce_variables",
    "tartiflette.execution.response:build_response",
]

CONFIGS = list(itertools.product([True, False], [True, False], ["gather", "sync"]))


def engine_opts(cfg):
    from tartiflette.resolver.default import sync_arguments_coercer
    lc, pc, ac = cfg
    o = {"coerce_list_concurrently": lc, "coerce_parent_concurrently": pc}
    if ac == "sync":
        o["custom_default_arguments_coercer"] = sync_arguments_coercer
    return o


async def check_config(ctx, s, engine, req, faults, ref, cfg, sdl, cap, rng, arg_faults=()):
    st = ctx.stats
    worlds = []
    case = dict(req.describe(), sdl=sdl, config=list(cfg), faults={k: list(v) for k, v in faults.items()},
                arg_faults=sorted(arg_faults))
    if arg_faults:
        st.inc("requests_with_failing_argument_hooks")
    root_t = s.roots()[req.op.kind]

    async def run_once(choose):
        def make(sched):
            w = world_mod.World(s, req.wseed, faults, sched)
            for k_, v_ in (getattr(req, "world_opts", None) or {}).items():
                setattr(w, k_, v_)
            w.arg_faults = set(arg_faults)
            worlds.append(w)
            root = w.root_object(root_t) if req.use_root else None
            return [engine.execute(req.text, operation_name=req.op_name, context={"world": w},
                                   variables=req.variables, initial_value=root)]
        with S.WarningTrap() as trap:
            results, sched, stray, stuck = await S.run_scheduled(make, choose, step_bound=5000 if not getattr(req, "world_opts", None) else 200000)
        return (results[0], stray, stuck, trap), sched

    runs, exhaustive = await S.collect_schedules(run_once, cap, rng, sample_tail=2)
    orders = set()
    for prefix, (resp, stray, stuck, trap), sched in runs:
        st.inc("evaluations")
        st.inc("gate_releases", len(sched.choices))
        orders.add(sched.release_order())
        c2 = dict(case, schedule=[c[0] for c in sched.choices])
        if stuck is not None:
            ctx.violation("stuck", str(stuck), c2)
            continue
        if isinstance(resp, BaseException):
            ctx.violation("execute-raised", repr(resp), c2)
            continue
        env = X.check_envelope(resp)
        if env:
            ctx.violation("envelope", env, c2)
            continue
        d = X.first_diff(resp["data"], ref.data)
        if d:
            ctx.violation("data-depends-on-schedule-or-config", "config=%s schedule=%s at %s engine=%s reference=%s" % (
                cfg, c2["schedule"][:12], list(d[0]), X.jdump(d[1])[:150], X.jdump(d[2])[:150]), c2)
            continue
        if bool(ref.errors) != bool(resp.get("errors")):
            ctx.violation("errors-presence-differs", "config=%s ref=%s engine=%s" % (cfg, ref.errors[:2], X.jdump(resp.get("errors"))[:200]), c2)
            continue
        for kind, detail in X.check_errors(ctx, req, resp, ref, c2):
            ctx.violation(kind, "config=%s %s" % (cfg, detail), c2)
        for p in sched.check_log():
            ctx.violation("gate-history", p, c2)
        if stray:
            ctx.violation("task-alive-after-execute", repr(stray[:2]), c2)
        if trap.seen:
            # not a violation of the statement (a coroutine that was never started is not a started resolver
            # left unfinished): observed on the unchanged tree when a sequentially awaited non-null sibling
            # fails in execute_fields.  Counted, not judged (DESIGN.md change log).
            st.inc("coroutines_never_awaited_observed", len(trap.seen))
    st.inc("request_configs")
    st.inc("distinct_schedules", len(orders))
    if exhaustive:
        st.inc("exhaustively_enumerated")
    if len(orders) >= 2:
        st.distinct("nontrivial", (sdl, req.text, canon(req.variables), req.wseed, sorted(faults.items()), cfg))
        st.sample({"query": req.text[:500], "config": list(cfg), "schedules": len(runs), "exhaustive": exhaustive,
                   "distinct_release_orders": len(orders), "one_order": list(next(iter(orders)))[:12]}, limit=3)


supports_hetero = smodel.supports_hetero


def wide_shape(s, req):
    """A root field whose type is a (single-level) list of composites and whose direct sub-selection has a list-typed field."""
    root = s.types[s.roots()[req.op.kind]]
    for sel in req.op.selset:
        if sel.kind != "field" or sel.name not in root.fields or not sel.selset:
            continue
        t = root.fields[sel.name].type
        t = t[1] if t[0] == "NN" else t
        if t[0] != "L":
            continue
        it = t[1][1] if t[1][0] == "NN" else t[1]
        if it[0] != "N" or s.kind(it[1]) != "OBJECT":
            continue
        inner = s.types[it[1]]
        for sub in sel.selset:
            if sub.kind == "field" and sub.name in inner.fields:
                st_ = inner.fields[sub.name].type
                st_ = st_[1] if st_[0] == "NN" else st_
                if st_[0] == "L":
                    return True
    return False


async def run_case(ctx, rng, index):
    so = smodel.GenOpts(n_objects=(2, 3), n_interfaces=(0, 1), n_unions=(0, 1), fields=(2, 3), p_gate=0.25,
                        p_mutation=0.3, p_nonnull=rng.choice([0.2, 0.5]))
    s = smodel.gen_schema(rng, so)
    if index % 2 == 0:
        # every second case: a schema in which some field returns a LIST of an interface that has >= 2 implementers and a
        # composite field (merged field nodes can then differ from item to item, request r == 2)
        so.n_interfaces = (1, 2)
        for _try in range(40):
            if supports_hetero(s):
                break
            s = smodel.gen_schema(rng, so)
    if rng.random() < 0.5:
        for t in s.objects():
            for f in t.fields.values():
                f.parent_concurrently, f.list_concurrently = None, None
    sdl = smodel.print_sdl(s)
    bundles = {}
    try:
        for cfg in CONFIGS:
            b = harness.Bundle(s, sdl=sdl, **engine_opts(cfg))
            await b.build()
            bundles[cfg] = b
        cap = CAP[ctx.tier]
        for r in range(REQS_PER_SCHEMA):
            if r == 2:
                # merged sub-selections that differ per list item (type conditions) under every schedule
                req = X.gen_request(rng, s, docgen.DocOpts(max_fields=10, max_depth=4, p_hetero=1.0, p_inline=0.3, p_repeat_outer=0.6,
                                                           op_kinds=("query",)))
                for _try in range(25):
                    if getattr(req.doc, "hetero", 0) or not supports_hetero(s):
                        break
                    req = X.gen_request(rng, s, docgen.DocOpts(max_fields=rng.choice([10, 14]), max_depth=4, p_hetero=1.0, p_inline=0.3,
                                                               p_repeat_outer=0.6, op_kinds=("query",)))
                if getattr(req.doc, "hetero", 0):
                    ctx.stats.inc("requests_with_per_item_merged_nodes")
            else:
                req = X.gen_request(rng, s, docgen.DocOpts(max_fields=rng.choice([3, 5, 7]), max_depth=3,
                                                           op_kinds=("query", "mutation")))
            wide = r == 1 and index % 4 == 0
            if wide:
                # a document in which a root-level list of objects selects a list-typed field below it
                for _try in range(30):
                    if wide_shape(s, req):
                        break
                    req = X.gen_request(rng, s, docgen.DocOpts(max_fields=rng.choice([5, 7, 9]), max_depth=3, op_kinds=("query",)))
                else:
                    wide = False
            if wide:
                # size boundary: root-level lists of 130 / 300 objects (each with its own sub-selection, nested lists
                # included); few schedules, the point is termination and equality with the reference
                req.world_opts = {"p_long_obj": 1.0, "long_obj_sizes": (130, 300)}
            w0, _ = X.make_worlds(s, req)
            try:
                ref0 = X.run_reference(s, req, w0)
            except refexec.RefBug:
                ctx.stats.inc("refbug")
                continue
            if ref0.request_error:
                continue
            if wide:
                ctx.stats.inc("wide_requests")
                ctx.stats.inc("wide_request_instances", len(w0.insts))
            faults = {}
            if rng.random() < 0.5 and w0.insts:
                for key in rng.sample(sorted(w0.insts), min(len(w0.insts), rng.randint(1, 2))):
                    T, fname, v = w0.insts[key]
                    faults[key] = rng.choice(w0.applicable_faults(T, fname, v))
            arg_faults = set()
            if rng.random() < 0.3:
                gated = [(f.name, a.name) for t in s.objects() for f in t.fields.values() for a in f.args
                         if any(d[0] == "vtgate" for d in a.directives)]
                if gated:
                    arg_faults = set(rng.sample(gated, min(len(gated), rng.randint(1, 2))))
            w1, _ = X.make_worlds(s, req, faults)
            w1.arg_faults = arg_faults
            ref = X.run_reference(s, req, w1)
            cfgs = CONFIGS if (ctx.tier == "thorough" or r == 0) and not wide else rng.sample(CONFIGS, 4)
            for cfg in cfgs:
                await check_config(ctx, s, bundles[cfg].engine, req, faults, ref, cfg, sdl, cap if not wide else 3, rng, arg_faults)
    finally:
        for b in bundles.values():
            b.dispose()
