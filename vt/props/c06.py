"""C06 — valid documents are never refused by validation."""
from vt import docgen, exec_common as X, refexec, smodel
from vt.props import c01

LEVEL = "exploration"
N_CASES = {"quick": 640, "thorough": 16000}
DOCS_PER_SCHEMA = 12
MIN_NONTRIVIAL = 50
RULE = ("case = random schema (with mutation and subscription roots) x %d documents generated valid by construction and "
        "biased to legal-but-unusual shapes: fragment DAGs with sharing (same spread repeated, diamonds, fan-in), "
        "fragments defined after use / reachable only through fragments, variables used only inside fragments or only in "
        "directives, several named operations of all three kinds sharing fragments and variables, identical repeated "
        "fields with merged sub-selections, __typename everywhere, __schema/__type aliases, keyword-like names, "
        "subscription operations selecting their single response key twice or through inline fragments. Oracle: no error "
        "carrying a validation-rule tag and no generic parse refusal; data equals the C01 reference. non-trivial = "
        "document with >=1 named fragment spread or >1 operation; distinct by (SDL, document)") % DOCS_PER_SCHEMA
ASSUMPTIONS = ["field-merge validity is guaranteed by a conservative sufficient condition (same response key => same field, "
               "arguments and type everywhere in the document)"]
ANCHORS = [
    "tartiflette.language.parsers.libgraphqlparser.transformers:document_from_ast_json",
    "tartiflette.language.validators:Validators.validate",
    "tartiflette.language.validators.query.fragment_spreads_must_not_form_cycles:FragmentSpreadsMustNotFormCycles.validate",
    "tartiflette.language.validators.query.fragment_spread_is_possible:FragmentSpreadIsPossible.validate",
    "tartiflette.language.validators.query.all_variable_usages_are_allowed:AllVariableUsagesAreAllowed.validate",
    "tartiflette.language.validators.query.values_of_correct_type:ValuesOfCorrectType.validate",
    "tartiflette.language.validators.query.single_root_field:SingleRootField.validate",
    "tartiflette.execution.collect:parse_and_validate_query",
]


async def run_case(ctx, rng, index):
    so = smodel.GenOpts(p_mutation=0.5, p_subscription=0.5)
    s = smodel.gen_schema(rng, so)
    s.directives["vtany"] = smodel.DirectiveDef("vtany", ["QUERY", "MUTATION", "SUBSCRIPTION", "FIELD", "FRAGMENT_DEFINITION",
                                                          "FRAGMENT_SPREAD", "INLINE_FRAGMENT"])
    from vt import harness
    b = harness.Bundle(s)
    await b.build()
    try:
        for _ in range(DOCS_PER_SCHEMA):
            do = docgen.DocOpts(anydir="vtany", n_ops=rng.choice([(1, 1), (2, 3), (2, 4)]), op_kinds=("query", "mutation", "subscription"),
                                p_spread=rng.choice([0.2, 0.35, 0.5]), p_inline=0.2, p_repeat=0.2, p_typename=0.25,
                                max_depth=rng.choice([3, 4, 5]), max_fields=rng.choice([15, 30]), introspection=0.3,
                                p_var=0.5)
            g = docgen.DocGen(rng, s, do)
            doc = g.gen_doc()
            docgen.print_doc(doc, rng, docgen.random_style(rng))
            runnable = [o for o in doc.ops if o.kind != "subscription"]
            if not runnable:
                # validation still runs for the whole document: pick the subscription by name and only scan tags
                op = doc.ops[0]
                # the engine answers an unknown operation name only after the document passed validation: the
                # response must be the one a trivially valid document gets for the same unknown name (differential,
                # no wording involved)
                resp = await guarded(ctx, b.engine, doc, op, b.sdl)
                control = await b.engine.execute("{__typename}", operation_name="no_such_operation_")
                if resp is not None:
                    if unlocated(resp) != unlocated(control):
                        scan(ctx, resp, doc, op, b.sdl)
                    else:
                        ctx.stats.inc("subscription_only_documents_accepted")
                    note(ctx, doc, b.sdl)
                continue
            req = X.gen_request(rng, s, doc=doc)
            while req.op.kind == "subscription":
                req = X.gen_request(rng, s, doc=doc)
            case = dict(req.describe(), sdl=b.sdl)
            w_ref, w_eng = X.make_worlds(s, req)
            try:
                resp, _ = await X.run_engine(b.engine, s, req, w_eng)
            except Exception as e:  # noqa
                ctx.violation("execute-raised", repr(e), case)
                continue
            r = X.refused(resp, w_eng)
            if r:
                # nothing ran and data is null: a refusal unless the specified answer is itself 'data: null'
                try:
                    ref = X.run_reference(s, req, w_ref)
                except refexec.RefBug:
                    ref = None
                if ref is not None and not ref.request_error and ref.data is not None:
                    ctx.violation("valid-document-refused", "tag=%s message=%s" % r, case)
                    continue
            await c01.check_request(ctx, s, b.engine, req, b.sdl)
            note(ctx, doc, b.sdl)
    finally:
        b.dispose()


async def guarded(ctx, engine, doc, op, sdl):
    try:
        return await engine.execute(doc.text, operation_name="no_such_operation_")
    except Exception as e:  # noqa
        ctx.violation("execute-raised", repr(e), {"query": doc.text, "sdl": sdl})
        return None


def unlocated(resp):
    return (resp.get("data"), sorted(X.jdump({k: v for k, v in e.items() if k != "locations"}) for e in resp.get("errors") or []))


def scan(ctx, resp, doc, op, sdl, case=None):
    r = X.refused(resp)
    ctx.violation("valid-document-refused", "tag=%s message=%s" % (r or (None, None)), case or {"query": doc.text, "sdl": sdl})
    return True


def note(ctx, doc, sdl):
    st = ctx.stats
    st.inc("documents")
    st.inc("fragments", len(doc.frags))
    st.inc("operations", len(doc.ops))
    if doc.frags or len(doc.ops) > 1:
        st.distinct("nontrivial", (sdl, doc.text))
    spreads = {}

    def walk(ss):
        for x in ss:
            if x.kind == "spread":
                spreads[x.name] = spreads.get(x.name, 0) + 1
            elif x.selset:
                walk(x.selset)
    for o in doc.ops:
        walk(o.selset)
    for f in doc.frags.values():
        walk(f.selset)
    if any(v > 1 for v in spreads.values()):
        st.inc("docs_with_shared_fragment")
    if any(o.kind == "subscription" for o in doc.ops):
        st.inc("docs_with_subscription_op")
