"""C01 — request results equal the GraphQL execution algorithm's result."""
from collections import Counter

from vt import docgen, exec_common as X, refexec, smodel
from vt.values import canon

LEVEL = "exploration"
N_CASES = {"quick": 640, "thorough": 16000}
DOCS_PER_SCHEMA = 10
WORLDS_PER_DOC = 2
MIN_NONTRIVIAL = 50
RULE = ("case = random schema model (objects/interfaces/unions/enums/custom scalars/input objects, list+non-null "
        "nestings, renamed roots) x %d valid-by-construction documents (aliases, repeated keys, inline/named fragment "
        "DAGs, type conditions, @skip/@include via literals and variables, 1-3 operations) x %d resolver data worlds "
        "(well-typed leaves, dict/attr/class parents, three levels of runtime-type naming with decoys; in fractions of the "
        "requests: rare nulls at non-null positions, custom scalars whose result coercion yields null, the same Python object "
        "handed out whenever a field instance is reached again, lists of 513-1030 leaves, root-level lists of 128-600 objects; "
        "SDL definitions in shuffled order, pass-through SCHEMA directive, @nonIntrospectable schemas with introspection "
        "fields); execute must return (quiescence monitor); oracle = "
        "reference execution (spec section 6) on the models: data equal incl. key order, resolver-call multiset "
        "equal (parent identity, coerced args, ctx identity), only the most specific type resolver consulted. "
        "non-trivial = >=3 resolver calls and at least one of alias/fragment/abstract/skip/include; distinct by "
        "(SDL, document, variables, world seed)") % (DOCS_PER_SCHEMA, WORLDS_PER_DOC)
ASSUMPTIONS = ["libgraphqlparser replaced by the vt drop-in parser (DESIGN.md section 2)",
               "resolver data restricted to well-typed leaves (hostile leaves: C03/C10)"]
ANCHORS = [
    "tartiflette.execution.collect:collect_fields",
    "tartiflette.execution.collect:collect_subfields",
    "tartiflette.execution.collect:does_fragment_condition_match",
    "tartiflette.execution.execute:execute_fields",
    "tartiflette.execution.execute:execute_operation",
    "tartiflette.resolver.factory:resolve_field",
    "tartiflette.resolver.default:default_field_resolver",
    "tartiflette.resolver.default:default_type_resolver",
    "tartiflette.coercers.outputs.abstract_coercer:abstract_coercer",
    "tartiflette.coercers.outputs.list_coercer:list_coercer_concurrently",
    "tartiflette.coercers.outputs.list_coercer:list_coercer_sequentially",
    "tartiflette.coercers.outputs.object_coercer:object_coercer",
    "tartiflette.coercers.outputs.scalar_coercer:scalar_coercer",
    "tartiflette.coercers.outputs.enum_coercer:enum_coercer",
    "tartiflette.coercers.arguments:coerce_arguments",
]


def sopts(rng, tier="quick"):
    if tier == "thorough" and rng.random() < 0.5:
        # bigger schemas in the thorough tier
        return smodel.GenOpts(p_mutation=0.35, n_objects=(4, 10), n_interfaces=(1, 4), n_unions=(0, 3), n_enums=(1, 3),
                              n_inputs=(0, 3), n_scalars=(0, 2), fields=(2, 7))
    return smodel.GenOpts(p_mutation=0.35, p_schema_pass=0.15, p_non_introspectable=0.08)


def dopts(rng, tier="quick"):
    if tier == "thorough" and rng.random() < 0.5:
        return docgen.DocOpts(n_ops=rng.choice([(1, 1), (1, 4)]), op_kinds=("query", "mutation"),
                              max_depth=rng.choice([4, 5, 6]), max_fields=rng.choice([40, 60, 90]), introspection=0.1,
                              p_spread=rng.choice([0.18, 0.3]), p_inline=rng.choice([0.18, 0.3]))
    return docgen.DocOpts(n_ops=rng.choice([(1, 1), (1, 1), (1, 3)]), op_kinds=("query", "mutation"),
                          max_depth=rng.choice([3, 4, 5]), max_fields=rng.choice([12, 25, 40]),
                          introspection=0.1)


async def check_request(ctx, s, engine, req, sdl, require_valid=True):
    st = ctx.stats
    w_ref, w_eng = X.make_worlds(s, req)
    if req.wseed % 5 == 0:
        w_ref.p_null_nonnull = w_eng.p_null_nonnull = 0.04
    if req.wseed % 3 == 0:
        w_eng.share_values = True                 # one field instance reached twice hands out the same list / object
    if req.wseed % 13 == 0:
        for w_ in (w_ref, w_eng):
            w_.p_long_obj, w_.long_obj_sizes = 0.3, (128, 257, 600)     # size boundaries: wide root-level lists of objects
        st.inc("requests_with_wide_object_lists_enabled")
    if req.wseed % 11 == 0:
        w_ref.p_long = w_eng.p_long = 0.05        # size boundaries: lists of 513 / 600 / 1030 leaves
        st.inc("requests_with_long_lists_enabled")
    case = dict(req.describe(), sdl=sdl)
    try:
        ref = X.run_reference(s, req, w_ref)
    except refexec.RefBug as e:
        st.inc("refbug")
        ctx.log("refbug", e)
        return None
    if ref.request_error:
        st.inc("ref-request-error")
        return None
    try:
        resp, context = await X.run_engine(engine, s, req, w_eng)
    except Exception as e:  # noqa
        ctx.violation("execute-raised", repr(e), case)
        return None
    st.inc("evaluations")
    st.inc("resolver_calls", len(w_eng.calls))
    st.inc("type_resolver_calls", len(w_eng.tr_calls))
    env = X.check_envelope(resp)
    if env:
        ctx.violation("envelope", env, case)
        return None
    ctx.log("engine:", X.jdump(resp)[:3000])
    ctx.log("reference:", X.jdump(ref.data)[:3000], ref.errors)
    d = X.first_diff(resp["data"], ref.data)
    if d:
        ctx.violation("data-differs", "at %s engine=%s reference=%s" % (list(d[0]), X.jdump(d[1])[:200], X.jdump(d[2])[:200]), case)
        return None
    if not ref.errors and resp.get("errors"):
        ctx.violation("unexpected-errors", X.jdump(resp["errors"])[:400], case)
        return None
    if ref.errors and not resp.get("errors"):
        ctx.violation("missing-errors", repr(ref.errors)[:400], case)
        return None
    # resolver calls
    eng_calls = Counter((c[0], c[1], c[2]) for c in w_eng.calls if not c[0].startswith("default:"))
    ref_calls = Counter(ref.calls)
    if not ref.errors:
        if eng_calls != ref_calls:
            extra = list((eng_calls - ref_calls).items())[:3]
            missing = list((ref_calls - eng_calls).items())[:3]
            ctx.violation("resolver-calls-differ", "extra=%s missing=%s" % (extra, missing), case)
            return None
        if s.custom_default_resolver:
            dc = Counter((c[0], c[1], c[2]) for c in w_eng.calls if c[0].startswith("default:")
                         and not c[0].startswith("default:__"))
            if dc != Counter(ref.default_calls):
                ctx.violation("default-resolver-calls-differ", "extra=%s missing=%s" % (
                    list((dc - Counter(ref.default_calls)).items())[:3], list((Counter(ref.default_calls) - dc).items())[:3]), case)
                return None
    else:
        if eng_calls - ref_calls:
            ctx.violation("resolver-calls-extra", repr(list((eng_calls - ref_calls).items())[:3]), case)
            return None
    if any(c[3] != id(context) for c in w_eng.calls):
        ctx.violation("context-identity", "a resolver received a context other than the caller's", case)
    if w_eng.anomalies:
        ctx.violation("resolver-anomaly", repr(w_eng.anomalies[:3]), case)
    for level, abstract, fld in w_eng.tr_calls:
        T, _, fn = fld.partition(".")
        f = s.types[T].fields.get(fn) if T in s.types else None
        if f is None or level != w_eng.type_levels(T, f, abstract)[0]:
            ctx.violation("type-resolver-precedence", "level %s consulted for %s at %s" % (level, abstract, fld), case)
    feats = X.doc_features(req.doc)
    if len(w_eng.calls) >= 3 and (feats & {"alias", "spread", "inline", "skip", "include"} or w_eng.tr_calls):
        st.distinct("nontrivial", (sdl, req.text, canon(req.variables), req.wseed))
    for f_ in feats:
        st.inc("feat:" + f_)
    st.sample({"sdl": sdl[:1500], "query": req.text[:1500], "variables": req.variables, "data": X.jdump(resp["data"])[:800],
               "resolver_calls": len(w_eng.calls)}, limit=2)
    return resp


async def run_case(ctx, rng, index):
    s, b = await X.new_bundle(rng, sopts(rng, ctx.tier))
    try:
        for _ in range(DOCS_PER_SCHEMA):
            req0 = X.gen_request(rng, s, dopts(rng, ctx.tier))
            for k in range(WORLDS_PER_DOC):
                req = req0 if k == 0 else X.gen_request(rng, s, doc=req0.doc)
                await check_request(ctx, s, b.engine, req, b.sdl)
    finally:
        b.dispose()
