"""C09 — mutation root fields run serially, in document order."""
from vt import docgen, exec_common as X, harness, refexec, sched as S, smodel, values, world as world_mod
from vt.values import canon

LEVEL = "exploration"
N_CASES = {"quick": 256, "thorough": 6400}
CAP = {"quick": 40, "thorough": 200}
REQS_PER_SCHEMA = 3
MIN_NONTRIVIAL = 30
RULE = ("case = random schema with a mutation root (2-6 root fields, nested lists/objects, @vtgate suspension points; in one case in eight `schema { query: R mutation: R }` shares the root type with queries) x "
        "%d mutation documents with 2-5 root selections (aliases, repeated keys, root-level inline/named fragments) x "
        "fault placements (none / nullable root fails / non-null root fails / nested failures) x schedules of the nested "
        "gates (exhaustive DFS up to a cap, then LIFO + random). Oracle, offline on the scheduler log: every event "
        "(start/release/resume of a resolver, default resolver, field hook or argument hook) is attributed to the root "
        "response key whose subtree it belongs to (by response path, or by source location for argument hooks); the "
        "sequence of owners must be non-decreasing in collected order, i.e. nothing of root k+1 happens before everything "
        "of root k is over; response key order = collected order; data = reference (so a failing nullable root does not "
        "stop later ones and a failing non-null root nulls data). non-trivial = mutation with >=2 root keys and >=2 "
        "distinct release orders; distinct by (SDL, document, variables, world, faults)") % REQS_PER_SCHEMA
ASSUMPTIONS = ["stdlib asyncio event loop", "argument-hook events inside fragments shared by several roots are not attributed (skipped)"]
ANCHORS = [
    "tartiflette.execution.execute:execute_fields_serially",
    "tartiflette.execution.execute:execute_operation",
    "tartiflette.execution.execute:resolve_field",
]


def owner_of(key, root_keys, root_spans):
    kind, _, rest = key.partition(":")
    if kind in ("r", "f", "d"):
        head = rest.split("/", 1)[0]
        return root_keys.get(head)
    if kind == "a":
        loc = rest.rsplit("@", 1)[1].split("~")[0]
        line, col = map(int, loc.split(":"))
        owners = {i for i, spans in root_spans.items() if any(docgen.in_span(sp, line, col) for sp in spans)}
        return owners.pop() if len(owners) == 1 else None
    return None


async def check_request(ctx, s, engine, req, faults, ref, sdl, cap, rng):
    st = ctx.stats
    case = dict(req.describe(), sdl=sdl, faults={k: list(v) for k, v in faults.items()})
    root_t = s.roots()["mutation"]
    # collected root keys in order, from the reference's own CollectFields
    stt, coerced, _ = values.coerce_variables(s, req.op.vardefs, req.variables or {})
    rx = refexec.RefExec(world_mod.World(s, req.wseed), req.doc, req.op, coerced)
    grouped = rx.collect(root_t, req.op.selset, {}, set())
    order = list(grouped)
    root_keys = {k: i for i, k in enumerate(order)}
    root_spans = {i: [n.span for n in grouped[k]] for k, i in root_keys.items()}

    async def run_once(choose):
        def make(sched):
            w = world_mod.World(s, req.wseed, faults, sched)
            root = w.root_object(root_t) if req.use_root else None
            return [engine.execute(req.text, operation_name=req.op_name, context={"world": w},
                                   variables=req.variables, initial_value=root)]
        results, sched, stray, stuck = await S.run_scheduled(make, choose, step_bound=5000)
        return (results[0], stray, stuck), sched

    runs, exhaustive = await S.collect_schedules(run_once, cap, rng, sample_tail=2)
    orders = set()
    for prefix, (resp, stray, stuck), sched in runs:
        st.inc("evaluations")
        st.inc("events_checked", len(sched.log))
        orders.add(sched.release_order())
        c2 = dict(case, schedule=[c[0] for c in sched.choices])
        if stuck is not None:
            ctx.violation("stuck", str(stuck), c2)
            continue
        if isinstance(resp, BaseException):
            ctx.violation("execute-raised", repr(resp), c2)
            continue
        env = X.check_envelope(resp)
        if env:
            ctx.violation("envelope", env, c2)
            continue
        d = X.first_diff(resp["data"], ref.data)
        if d:
            ctx.violation("data-differs", "schedule=%s at %s engine=%s reference=%s" % (
                c2["schedule"][:12], list(d[0]), X.jdump(d[1])[:150], X.jdump(d[2])[:150]), c2)
            continue
        if resp["data"] is not None and list(resp["data"]) != order:
            ctx.violation("root-key-order", "%s != collected %s" % (list(resp["data"]), order), c2)
        last, last_key = -1, None
        for e in sched.log:
            o = owner_of(e[1], root_keys, root_spans)
            if o is None:
                st.inc("events_unattributed")
                continue
            if o < last:
                ctx.violation("mutation-roots-overlap", "event %s of root #%d (%s) after event %s of root #%d; log=%s" % (
                    e[:2], o, order[o], last_key, last, [x[:2] for x in sched.log][:30]), c2)
                break
            if o > last:
                last, last_key = o, e[:2]
        for p in sched.check_log():
            ctx.violation("gate-history", p, c2)
        if stray:
            ctx.violation("task-alive-after-execute", repr(stray[:2]), c2)
    st.inc("mutations")
    if s.mutation == s.query:
        st.inc("mutations_on_a_root_type_shared_with_query")
    st.inc("distinct_schedules", len(orders))
    if exhaustive:
        st.inc("exhaustively_enumerated")
    if len(order) >= 2 and len(orders) >= 2:
        st.distinct("nontrivial", (sdl, req.text, canon(req.variables), req.wseed, sorted(faults.items())))
        st.sample({"query": req.text[:500], "root_keys": order, "schedules": len(runs), "exhaustive": exhaustive,
                   "one_log": [list(x[:2]) for x in runs[-1][2].log][:16]}, limit=3)


def gen_mutation_doc(rng, s):
    """Mutation with 2-5 root selections incl. aliases, repeats and root-level fragments."""
    do = docgen.DocOpts(max_fields=rng.choice([4, 6, 8]), max_depth=3, op_kinds=("mutation",), p_spread=0.2, p_inline=0.2,
                        p_repeat=0.2, p_alias=0.4)
    g = docgen.DocGen(rng, s, do)
    doc = g.gen_doc()
    docgen.print_doc(doc, rng, docgen.random_style(rng))
    return doc


async def run_case(ctx, rng, index):
    so = smodel.GenOpts(n_objects=(2, 3), n_interfaces=(0, 1), n_unions=(0, 1), fields=(2, 3), p_gate=0.25,
                        p_mutation=1.0, p_nonnull=rng.choice([0.2, 0.5]),
                        shared_root=(index % 8 == 5))
    s = smodel.gen_schema(rng, so)
    if rng.random() < 0.5:
        for t in s.objects():
            for f in t.fields.values():
                f.parent_concurrently, f.list_concurrently = None, None
    b = harness.Bundle(s, coerce_parent_concurrently=rng.choice([None, True, False]),
                       coerce_list_concurrently=rng.choice([None, True, False]))
    await b.build()
    try:
        cap = CAP[ctx.tier]
        for r in range(REQS_PER_SCHEMA):
            doc = gen_mutation_doc(rng, s)
            req = X.gen_request(rng, s, doc=doc)
            w0, _ = X.make_worlds(s, req)
            try:
                ref0 = X.run_reference(s, req, w0)
            except refexec.RefBug:
                ctx.stats.inc("refbug")
                continue
            if ref0.request_error:
                continue
            faults = {}
            roll = rng.random()
            if roll < 0.6 and w0.insts:
                keys = sorted(w0.insts)
                rootkeys = [k for k in keys if k.count("/") == 1]
                pick = rng.choice(rootkeys) if rootkeys and roll < 0.35 else rng.choice(keys)
                T, fname, v = w0.insts[pick]
                faults[pick] = rng.choice(w0.applicable_faults(T, fname, v))
            w1, _ = X.make_worlds(s, req, faults)
            ref = X.run_reference(s, req, w1)
            await check_request(ctx, s, b.engine, req, faults, ref, b.sdl, cap, rng)
    finally:
        b.dispose()
