"""C12 — an engine is never built from an SDL that breaks a checked schema rule."""
import copy
import os
import re
import shutil

from vt import boot, harness, sdlgen, smodel
from vt.props import c11
from vt.smodel import NODEF, Arg, DirectiveDef, Field, L, N, NN, named_of, tstr

LEVEL = "fault_enumeration"
N_CASES = {"quick": 64, "thorough": 1000}
MIN_NONTRIVIAL = 50
RULE = ("case = valid schema model (as C11; built first to make sure it IS accepted) x the catalogue of SDL-level violation "
        "rewrites, each applied at every applicable site (up to 3 random sites per rewrite in quick): undefined type in field / "
        "argument / input field / directive argument (behind any wrappers, in base definitions and inside `extend`); "
        "non-input type for argument / input field / directive argument; interface breaches (field dropped, retyped to an "
        "unrelated type, nullable for non-null, list mismatch, argument dropped / retyped / extra required, implements an "
        "object / scalar / enum / unknown name, breach introduced only through `extend type ... implements`); missing query "
        "root, undefined query / mutation / subscription root; empty object; self-containing union; duplicate enum value "
        "(in the definition, through `extend enum`); duplicate type (same and different kind) and directive definitions; "
        "scalar without implementation; invalid `extend` (unknown target, wrong kind for each kind, duplicate field / input "
        "field / enum value / union member / interface / applied directive, schema operation extended twice); directive hook "
        "that is a plain function (each hook name) or a non-async-generator subscription hook; syntax damage (token deletion, "
        "brace imbalance, broken string). Each violating SDL is supplied in a random one of the four supply modes. Oracle: "
        "create_engine raises. non-trivial = every (rewrite, site) that was executed; distinct by (SDL, rewrite, site)")
ASSUMPTIONS = ["the base model is accepted by create_engine (checked in every case before the rewrites are applied)"]
ANCHORS = [
    "tartiflette.schema.schema:GraphQLSchema._validate",
    "tartiflette.schema.schema:GraphQLSchema._validate_extensions",
    "tartiflette.schema.schema:GraphQLSchema._validate_schema_named_types",
    "tartiflette.schema.schema:GraphQLSchema._validate_object_follow_interfaces",
    "tartiflette.schema.schema:GraphQLSchema._validate_schema_root_types_exist",
    "tartiflette.schema.schema:GraphQLSchema._validate_non_empty_object",
    "tartiflette.schema.schema:GraphQLSchema._validate_union_is_acceptable",
    "tartiflette.schema.schema:GraphQLSchema._validate_all_scalars_have_implementations",
    "tartiflette.schema.schema:GraphQLSchema._validate_enum_values_are_unique",
    "tartiflette.schema.schema:GraphQLSchema._validate_arguments_have_valid_type",
    "tartiflette.schema.schema:GraphQLSchema._validate_input_type_composed_of_input_type",
    "tartiflette.schema.transformer:schema_from_sdl",
]


EXPECTED_REASON = {
    "undefined-type": ["does not exist", "unknown", "not found", "is not a scalar, an enum or an inputobject", "keyerror"],
    "non-input-type": ["not a scalar, an enum or an inputobject"],
    "interface-field-missing": ["is missing"],
    "interface-field-type": ["should be of type"],
    "interface-argument-missing": ["missing interface field argument", "is missing", "argument"],
    "interface-argument-type": ["argument"],
    "interface-extra-required-argument": ["isn't required in interface field", "nonnullable"],
    "implements-non-interface": ["not an interface", "does not exist"],
    "missing-query-root": ["missing query type"],
    "undefined-root": ["missing query type", "missing mutation type", "missing subscription type", "keyerror"],
    "empty-object": ["has no fields"],
    "union-contains-itself": ["union"],
    "duplicate-enum-value": ["not unique", "already"],
    "duplicate-type": ["redefin", "already", "duplicate"],
    "duplicate-directive": ["redefin", "already", "duplicate"],
    "scalar-without-implementation": ["implementation", "missing"],
    "extend-unknown-target": ["extend", "unknown", "undefined", "doesn't exist", "not defined"],
    "extend-wrong-kind": ["extend", "expected"],
    "extend-duplicate-member": ["already", "cause", "not unique"],
    "extend-schema-twice": ["multiple times", "already"],
    "directive-hook-not-awaitable": ["not awaitable", "async generator"],
}


_GENERIC = {"Int", "Float", "String", "Boolean", "ID", "OBJECT", "INTERFACE", "UNION", "ENUM", "SCALAR", "INPUT_OBJECT"}


def exception_text(e, depth=0):
    """Everything textual an exception carries: class name, str(), args, attribute values (lists of problems included),
    causes.  The audit must not depend on WHERE the engine puts the explanation."""
    parts = [type(e).__name__]
    try:
        parts.append(str(e))
    except Exception:  # noqa
        pass

    def walk(x, d):
        if d > 4:
            return
        if isinstance(x, str):
            parts.append(x)
        elif isinstance(x, BaseException):
            if d:
                parts.append(exception_text(x, d + 1))
        elif isinstance(x, dict):
            for v in x.values():
                walk(v, d + 1)
        elif isinstance(x, (list, tuple, set)):
            for v in x:
                walk(v, d + 1)
    walk(list(getattr(e, "args", ()) or ()), 1)
    walk(getattr(e, "__dict__", {}) or {}, 1)
    if depth < 3:
        for c in (e.__cause__, e.__context__):
            if c is not None:
                parts.append(exception_text(c, depth + 1))
    return " ".join(parts)


def mentions_target(r, message):
    """Wording-independent half of the audit: the refusal names a type / directive / marker the rewrite touched (tokens of
    the site label and of the added chunks that look like type names: an upper-case letter, digit or underscore in them)."""
    toks = set(re.findall(r"[A-Za-z_][A-Za-z0-9_]*", r["site"] + " " + " ".join(r["extra"] or [])))
    toks = {t for t in toks if len(t) >= 2 and t not in _GENERIC and re.search(r"[A-Z0-9_]", t)}
    return any(re.search(r"(?<![A-Za-z0-9_])%s(?![A-Za-z0-9_])" % re.escape(t), message) for t in toks)


def post_check(counters, distinct):
    """Supervisor hook: a clause whose rewrites were ALWAYS refused for some other reason was not exercised."""
    out = []
    for rule in EXPECTED_REASON:
        n = counters.get("rule:" + rule, 0)
        other = counters.get("refused-for-another-reason:" + rule, 0)
        if n and other == n:
            out.append("every '%s' rewrite was refused for another reason than the targeted clause (%d of %d)" % (rule, other, n))
    return out


def replace_named(t, new):
    if t[0] == "N":
        return N(new)
    return (t[0], replace_named(t[1], new))


def objs(s):
    return [t for t in s.types.values() if t.kind == "OBJECT"]


def of_kind(s, *kinds):
    return [t for t in s.types.values() if t.kind in kinds]


class Rewrites:
    """Each method yields (site label, mutate(model) | extra chunks | harness tweak)."""

    def __init__(self, rng, s, max_sites):
        self.rng, self.s, self.max_sites = rng, s, max_sites

    def pick(self, items):
        items = list(items)
        self.rng.shuffle(items)
        return items[: self.max_sites]

    # every generator yields dicts: {"rule", "site", "mut": fn(model) or None, "extra": [chunks], "tweak": str or None}
    def all(self):
        s, rng = self.s, self.rng
        out = []

        def add(rule, site, mut=None, extra=None, tweak=None, drop=None):
            out.append({"rule": rule, "site": site, "mut": mut, "extra": extra or [], "tweak": tweak, "drop": drop})

        # ---- undefined / non-input types
        field_sites = [(t.name, f.name) for t in of_kind(s, "OBJECT", "INTERFACE") for f in t.fields.values()]
        arg_sites = [(t.name, f.name, a.name) for t in of_kind(s, "OBJECT", "INTERFACE") for f in t.fields.values() for a in f.args]
        in_sites = [(t.name, a.name) for t in of_kind(s, "INPUT_OBJECT") for a in t.fields]
        dir_sites = [(d.name, a.name) for d in s.directives.values() for a in d.args]
        composite = [t.name for t in of_kind(s, "OBJECT", "INTERFACE", "UNION")]

        def set_field_type(tn, fn, new):
            def mut(m):
                f = m.types[tn].fields[fn]
                f.type = replace_named(f.type, new)
                self.sync_implementers(m, tn, fn)
            return mut

        def set_arg_type(tn, fn, an, new):
            def mut(m):
                a = m.types[tn].fields[fn].arg(an)
                a.type, a.default = replace_named(a.type, new), NODEF
                self.sync_implementers(m, tn, fn)
            return mut

        def set_in_type(tn, an, new):
            def mut(m):
                a = m.types[tn].field(an)
                a.type, a.default = replace_named(a.type, new), NODEF
            return mut

        def set_dir_type(dn, an, new):
            def mut(m):
                a = [x for x in m.directives[dn].args if x.name == an][0]
                a.type, a.default = replace_named(a.type, new), NODEF
                self.strip_directive_usage(m, dn)
            return mut
        for tn, fn in self.pick(field_sites):
            add("undefined-type", "field %s.%s: %s" % (tn, fn, tstr(s.types[tn].fields[fn].type)), set_field_type(tn, fn, "NoSuchType_"))
        for tn, fn, an in self.pick(arg_sites):
            add("undefined-type", "argument %s.%s(%s)" % (tn, fn, an), set_arg_type(tn, fn, an, "NoSuchType_"))
            if composite:
                add("non-input-type", "argument %s.%s(%s)" % (tn, fn, an), set_arg_type(tn, fn, an, rng.choice(composite)))
        for tn, an in self.pick(in_sites):
            add("undefined-type", "input field %s.%s" % (tn, an), set_in_type(tn, an, "NoSuchType_"))
            if composite:
                add("non-input-type", "input field %s.%s" % (tn, an), set_in_type(tn, an, rng.choice(composite)))
        for dn, an in self.pick(dir_sites):
            add("undefined-type", "directive argument @%s(%s)" % (dn, an), set_dir_type(dn, an, "NoSuchType_"))
            if composite:
                add("non-input-type", "directive argument @%s(%s)" % (dn, an), set_dir_type(dn, an, rng.choice(composite)))
        for t in self.pick(objs(s)):
            add("undefined-type", "field added by extend type %s" % t.name, extra=["extend type %s {\n  extraField_: [NoSuchType_!]\n}" % t.name])
        for t in self.pick(of_kind(s, "INPUT_OBJECT")):
            if composite:
                add("non-input-type", "input field added by extend input %s" % t.name,
                    extra=["extend input %s {\n  extraField_: %s\n}" % (t.name, rng.choice(composite))])

        # ---- interface conformance
        impls = [(o.name, i, f) for o in objs(s) for i in o.interfaces for f in s.types[i].fields]
        for on, iname, fn in self.pick(impls):
            ifield = s.types[iname].fields[fn]
            others = [i2 for i2 in s.types[on].interfaces if i2 != iname and fn in s.types[i2].fields]
            if len(s.types[on].fields) > 1:
                def mut(m, on=on, fn=fn):
                    del m.types[on].fields[fn]
                add("interface-field-missing", "%s lacks %s.%s" % (on, iname, fn), mut)
            unrelated = "Boolean" if named_of(ifield.type) != "Boolean" else "Int"

            def mut(m, on=on, fn=fn, unrelated=unrelated):
                f = m.types[on].fields[fn]
                f.type = replace_named(f.type, unrelated)
            add("interface-field-type", "%s.%s retyped to %s (interface %s says %s)" % (on, fn, unrelated, iname, tstr(ifield.type)), mut)
            if ifield.type[0] == "NN":
                def mut(m, on=on, fn=fn, it=ifield.type):
                    m.types[on].fields[fn].type = it[1]
                add("interface-field-type", "%s.%s nullable where %s.%s is non-null" % (on, fn, iname, fn), mut)

            def mut(m, on=on, fn=fn, it=ifield.type):
                base = it[1] if it[0] == "NN" else it
                m.types[on].fields[fn].type = L(base) if base[0] != "L" else base[1] if base[1][0] != "NN" else base[1][1]
            add("interface-field-type", "%s.%s list mismatch with %s.%s: %s" % (on, fn, iname, fn, tstr(ifield.type)), mut)
            if ifield.args:
                a0 = rng.choice(ifield.args)

                def mut(m, on=on, fn=fn, an=a0.name):
                    f = m.types[on].fields[fn]
                    f.args = [a for a in f.args if a.name != an]
                add("interface-argument-missing", "%s.%s lacks argument %s of %s" % (on, fn, a0.name, iname), mut)
                other = "Boolean" if named_of(a0.type) != "Boolean" else "Int"

                def mut(m, on=on, fn=fn, an=a0.name, other=other):
                    a = m.types[on].fields[fn].arg(an)
                    a.type, a.default = replace_named(a.type, other), NODEF
                add("interface-argument-type", "%s.%s(%s) retyped to %s" % (on, fn, a0.name, other), mut)

            for a0 in ifield.args[:2]:
                # same depth and inner type, other wrapper kind: [X] <-> X!
                base = a0.type
                swapped = None
                if base[0] == "L":
                    swapped = NN(base[1]) if base[1][0] != "NN" else None
                elif base[0] == "NN" and base[1][0] != "L":
                    swapped = L(base[1])
                if swapped is not None:
                    def mut(m, on=on, fn=fn, an=a0.name, swapped=swapped):
                        a = m.types[on].fields[fn].arg(an)
                        a.type, a.default = swapped, NODEF
                    add("interface-argument-type", "%s.%s(%s): %s where %s says %s" % (on, fn, a0.name, tstr(swapped), iname, tstr(base)), mut)

            def mut(m, on=on, fn=fn):
                m.types[on].fields[fn].args.append(Arg("extraRequired_", NN(N("Int"))))
            add("interface-extra-required-argument", "%s.%s gets a required argument %s.%s does not have" % (on, fn, iname, fn), mut)
        for o in self.pick(objs(s)):
            cands = [("object", [x.name for x in objs(s) if x.name != o.name]), ("scalar", ["Int"] + [x.name for x in of_kind(s, "SCALAR")]),
                     ("enum", [x.name for x in of_kind(s, "ENUM")]), ("unknown", ["NoSuchInterface_"])]
            for what, names in cands:
                if names:
                    nm = rng.choice(names)

                    def mut(m, on=o.name, nm=nm):
                        m.types[on].interfaces.append(nm)
                    add("implements-non-interface", "%s implements %s %s" % (o.name, what, nm), mut)
        # ... a non-interface whose every field the implementer honours (a duck-typed "is it an interface" test passes):
        # the object itself, and a twin object type declaring a subset of the same fields, directly and through an extension
        for o in self.pick(objs(s)):
            def mut(m, on=o.name):
                m.types[on].interfaces.append(on)
            add("implements-non-interface", "%s implements itself" % o.name, mut)

            def mut(m, on=o.name, via_ext=False, keep=rng.choice([1, 2, 99])):
                twin = copy.deepcopy(m.types[on])
                twin.name = "Twin_"
                twin.interfaces, twin.directives = [], []
                for fn in list(twin.fields)[keep:]:
                    del twin.fields[fn]
                m.add(twin)
                if not via_ext:
                    m.types[on].interfaces.append("Twin_")
            add("implements-non-interface", "%s implements object Twin_ declaring the same fields" % o.name, mut)
            add("implements-non-interface", "interface-only `extend type %s implements` object Twin_ declaring the same fields" % o.name,
                lambda m, f=mut: f(m, via_ext=True), extra=["extend type %s implements Twin_" % o.name])
        ifaces = of_kind(s, "INTERFACE")
        for o in self.pick(objs(s)):
            free = [i for i in ifaces if i.name not in o.interfaces and not any(fn in o.fields for fn in i.fields)]
            if free:
                i = rng.choice(free)
                add("interface-field-missing", "extend type %s implements %s without its fields" % (o.name, i.name),
                    extra=["extend type %s implements %s {\n  unrelatedExtra_: Int\n}" % (o.name, i.name)])

        # ---- the same breaches through an extension that carries ONLY `implements`
        for o in self.pick(objs(s)):
            free = [i for i in ifaces if i.name not in o.interfaces and not all(fn in o.fields for fn in i.fields)]
            if free:
                i = rng.choice(free)
                add("interface-field-missing", "interface-only `extend type %s implements %s` without its fields" % (o.name, i.name),
                    extra=["extend type %s implements %s" % (o.name, i.name)])
            if o.interfaces:
                add("extend-duplicate-member", "interface-only `extend type %s implements %s` (already implemented)" % (o.name, o.interfaces[0]),
                    extra=["extend type %s implements %s" % (o.name, o.interfaces[0])])
            others = [x.name for x in objs(s) if x.name != o.name]
            if others:
                add("implements-non-interface", "interface-only `extend type %s implements` object %s" % (o.name, others[0]),
                    extra=["extend type %s implements %s" % (o.name, others[0])])
            add("implements-non-interface", "interface-only `extend type %s implements` unknown" % o.name,
                extra=["extend type %s implements NoSuchInterface_" % o.name])
        if ifaces:
            add("extend-unknown-target", "interface-only extend type of an unknown target", extra=["extend type NoSuchTarget_ implements %s" % ifaces[0].name])
            for t in self.pick([t for t in s.types.values() if t.kind != "OBJECT"]):
                add("extend-wrong-kind", "interface-only extend type applied to %s %s" % (t.kind, t.name),
                    extra=["extend type %s implements %s" % (t.name, ifaces[0].name)])

        # ---- roots
        if s.query == "Query" and not any(named_of(f.type) == "Query" for t in of_kind(s, "OBJECT", "INTERFACE") for f in t.fields.values()) \
                and not any("Query" in u.members for u in of_kind(s, "UNION")):
            def mut(m):
                del m.types["Query"]
                m.explicit_schema_def = False
            if not smodel.needs_schema_def(s) and not getattr(s, "schema_directives", []):
                add("missing-query-root", "no type Query and no schema definition", mut)

        def mut(m):
            m.query = "UnknownQueryRoot_"
        add("undefined-root", "schema { query: UnknownQueryRoot_ }", mut)

        def mut(m):
            m.mutation = "UnknownMutationRoot_"
        add("undefined-root", "schema { mutation: UnknownMutationRoot_ }", mut)

        def mut(m):
            m.subscription = "UnknownSubscriptionRoot_"
        add("undefined-root", "schema { subscription: UnknownSubscriptionRoot_ }", mut)

        # ---- empty object, self union
        for o in self.pick([o for o in objs(s) if not o.interfaces]):
            def mut(m, on=o.name):
                m.types[on].fields.clear()
            add("empty-object", "type %s without fields" % o.name, mut)
        add("empty-object", "new type without fields", extra=["type EmptyObject_"])
        for rootname, label in ((s.query, "query"), (s.mutation, "mutation"), (s.subscription, "subscription")):
            if rootname and not s.types[rootname].interfaces:
                def mut(m, rn=rootname):
                    m.types[rn].fields.clear()
                add("empty-object", "%s root type %s without fields" % (label, rootname), mut)
        for u in self.pick(of_kind(s, "UNION")):
            def mut(m, un=u.name):
                m.types[un].members.append(un)
            add("union-contains-itself", "union %s = ... | %s" % (u.name, u.name), mut)
            add("union-contains-itself", "extend union %s = %s" % (u.name, u.name), extra=["extend union %s = %s" % (u.name, u.name)])

        # ---- duplicates
        for e in self.pick(of_kind(s, "ENUM")):
            def mut(m, en=e.name):
                m.types[en].values.append(m.types[en].values[0])
            add("duplicate-enum-value", "enum %s lists %s twice" % (e.name, e.values[0]), mut)
            add("duplicate-enum-value", "extend enum %s { %s }" % (e.name, e.values[-1]), extra=["extend enum %s {\n  %s\n}" % (e.name, e.values[-1])])
        for t in self.pick(list(s.types.values())):
            if t.kind == "SCALAR":
                add("duplicate-type", "scalar %s defined twice" % t.name, extra=["scalar %s" % t.name])
            else:
                add("duplicate-type", "%s %s defined twice (same kind)" % (t.kind, t.name), extra=[sdlgen.type_chunks(rng, s, t, False)[0]])
                other = "enum %s {\n  DUP_\n}" % t.name if t.kind != "ENUM" else "type %s {\n  dup_: Int\n}" % t.name
                add("duplicate-type", "%s %s redefined with another kind" % (t.kind, t.name), extra=[other])
        for d in self.pick([d for d in s.directives.values()]):
            add("duplicate-directive", "directive @%s defined twice" % d.name, extra=[smodel.print_directive_def(d)])
        add("scalar-without-implementation", "scalar NoImplementation_", extra=["scalar NoImplementation_"])

        # ---- invalid extend
        add("extend-unknown-target", "extend type", extra=["extend type NoSuchTarget_ {\n  a: Int\n}"])
        add("extend-unknown-target", "extend enum", extra=["extend enum NoSuchTarget_ {\n  A\n}"])
        add("extend-unknown-target", "extend input", extra=["extend input NoSuchTarget_ {\n  a: Int\n}"])
        add("extend-unknown-target", "extend interface", extra=["extend interface NoSuchTarget_ {\n  a: Int\n}"])
        add("extend-unknown-target", "extend union", extra=["extend union NoSuchTarget_ = %s" % objs(s)[0].name])
        kinds = {"OBJECT": "extend type %s {\n  wrongKind_: Int\n}", "INTERFACE": "extend interface %s {\n  wrongKind_: Int\n}",
                 "ENUM": "extend enum %s {\n  WRONG_KIND_\n}", "INPUT_OBJECT": "extend input %s {\n  wrongKind_: Int\n}",
                 "UNION": "extend union %s = " + objs(s)[0].name}
        for t in self.pick(list(s.types.values())):
            for k, tmpl in kinds.items():
                if k != t.kind and rng.random() < 0.5:
                    add("extend-wrong-kind", "%s applied to %s %s" % (tmpl.split(" %s")[0], t.kind, t.name), extra=[tmpl % t.name])
        for o in self.pick(objs(s)):
            fn = rng.choice(list(o.fields))
            add("extend-duplicate-member", "extend type %s re-adds field %s" % (o.name, fn), extra=["extend type %s {\n  %s: Int\n}" % (o.name, fn)])
            if o.interfaces:
                add("extend-duplicate-member", "extend type %s re-implements %s" % (o.name, o.interfaces[0]),
                    extra=["extend type %s implements %s {\n  yetAnother_: Int\n}" % (o.name, o.interfaces[0])])
        for i in self.pick(of_kind(s, "INTERFACE")):
            fn = rng.choice(list(i.fields))
            add("extend-duplicate-member", "extend interface %s re-adds field %s" % (i.name, fn), extra=["extend interface %s {\n  %s: Int\n}" % (i.name, fn)])
        for t in self.pick(of_kind(s, "INPUT_OBJECT")):
            add("extend-duplicate-member", "extend input %s re-adds %s" % (t.name, t.fields[0].name),
                extra=["extend input %s {\n  %s: Int\n}" % (t.name, t.fields[0].name)])
        for u in self.pick(of_kind(s, "UNION")):
            add("extend-duplicate-member", "extend union %s re-adds %s" % (u.name, u.members[0]), extra=["extend union %s = %s" % (u.name, u.members[0])])
        for t in self.pick([t for t in s.types.values() if t.directives]):
            kw = {"SCALAR": "scalar", "OBJECT": "type", "INTERFACE": "interface", "UNION": "union", "ENUM": "enum", "INPUT_OBJECT": "input"}[t.kind]
            d = t.directives[0]
            add("extend-duplicate-member", "extend %s %s re-applies @%s" % (kw, t.name, d[0]),
                extra=["extend %s %s%s" % (kw, t.name, smodel.print_directives([d]))])
        # the same NEW member added by two different extensions (known finding: only enum values are caught)
        o = rng.choice(objs(s))
        add("extend-duplicate-across-extensions", "object field", extra=["extend type %s {\n  dupNew_: Int\n}" % o.name] * 2)
        free = [i for i in of_kind(s, "INTERFACE") if i.name not in o.interfaces and not any(fn in o.fields for fn in i.fields)]
        if free:
            i = rng.choice(free)
            body = "\n".join(smodel.print_field(f) for f in i.fields.values())
            add("extend-duplicate-across-extensions", "object interface",
                extra=["extend type %s implements %s {\n%s\n}" % (o.name, i.name, body), "extend type %s implements %s {\n  other_: Int\n}" % (o.name, i.name)])
        for e in self.pick(of_kind(s, "ENUM")):
            add("extend-duplicate-member", "two extensions of enum %s add the same value" % e.name, extra=["extend enum %s {\n  DUP_NEW_\n}" % e.name] * 2)
        for t in self.pick(of_kind(s, "INPUT_OBJECT")):
            add("extend-duplicate-across-extensions", "input field", extra=["extend input %s {\n  dupNew_: Int\n}" % t.name] * 2)
        for u in self.pick(of_kind(s, "UNION")):
            cand = [x.name for x in objs(s) if x.name not in u.members]
            if cand:
                add("extend-duplicate-across-extensions", "union member", extra=["extend union %s = %s" % (u.name, cand[0])] * 2)
        if s.mutation is None:
            o = objs(s)[0].name
            add("extend-schema-twice", "mutation added by two schema extensions",
                extra=["extend schema {\n  mutation: %s\n}" % o, "extend schema {\n  mutation: %s\n}" % o], tweak="force-schema-def")

        # ---- directive hooks
        for hook in ("on_field_execution", "on_argument_execution", "on_post_input_coercion", "on_pre_output_coercion",
                     "on_introspection", "on_post_bake", "on_schema_execution", "on_field_collection",
                     "on_fragment_spread_collection", "on_inline_fragment_collection"):
            add("directive-hook-not-awaitable", hook, extra=["directive @badHook_ on FIELD_DEFINITION | FIELD"], tweak="badhook:" + hook)
        for hook in self.pick(["on_field_execution", "on_argument_execution", "on_post_input_coercion", "on_pre_output_coercion",
                               "on_introspection", "on_post_bake", "on_schema_execution"]):
            add("directive-hook-not-awaitable", hook + " is an async generator function, not a coroutine function",
                extra=["directive @badHook_ on FIELD_DEFINITION | FIELD"], tweak="badagen:" + hook)
        add("directive-hook-not-awaitable", "on_schema_subscription is a coroutine, not an async generator",
            extra=["directive @badHook_ on FIELD_DEFINITION | FIELD"], tweak="badgen:on_schema_subscription")

        # ---- syntax
        for _ in range(self.max_sites):
            add("syntax", "damage#%d" % _, tweak="syntax")
        for _ in range(self.max_sites + 1):
            add("syntax-lexical", "character#%d" % _, tweak="lexical")
        return out

    @staticmethod
    def sync_implementers(m, tn, fn):
        """Keep implementers consistent when an interface field is retyped so that only the targeted rule is broken."""
        t = m.types[tn]
        if t.kind == "INTERFACE":
            for o in m.types.values():
                if o.kind == "OBJECT" and tn in o.interfaces and fn in o.fields:
                    o.fields[fn].type = t.fields[fn].type
                    o.fields[fn].args = [Arg(a.name, a.type, a.default) for a in t.fields[fn].args]
        elif t.kind == "OBJECT":
            for i in t.interfaces:
                it = m.types.get(i)
                if it is not None and fn in it.fields:
                    it.fields[fn].type = t.fields[fn].type
                    it.fields[fn].args = [Arg(a.name, a.type, a.default) for a in t.fields[fn].args]
                    for o in m.types.values():
                        if o.kind == "OBJECT" and i in o.interfaces and fn in o.fields and o is not t:
                            o.fields[fn].type = t.fields[fn].type
                            o.fields[fn].args = [Arg(a.name, a.type, a.default) for a in t.fields[fn].args]

    @staticmethod
    def strip_directive_usage(m, dn):
        def clean(lst):
            return [d for d in lst if d[0] != dn]
        m.schema_directives = clean(getattr(m, "schema_directives", []))
        for t in m.types.values():
            t.directives = clean(t.directives)
            if t.kind in ("OBJECT", "INTERFACE"):
                for f in t.fields.values():
                    f.directives = clean(f.directives)
                    for a in f.args:
                        a.directives = clean(a.directives)
            elif t.kind == "INPUT_OBJECT":
                for a in t.fields:
                    a.directives = clean(a.directives)
            elif t.kind == "ENUM":
                t.value_directives = {k: clean(v) for k, v in t.value_directives.items()}


def damage(rng, text):
    r = rng.random()
    toks = [i for i, ch in enumerate(text) if ch in "{}():=|@"]
    if r < 0.5 and toks:
        i = rng.choice(toks)
        return text[:i] + text[i + 1:]
    if r < 0.7:
        return text + rng.choice(["\n}", "\ntype {", "\n\"unterminated", "\ntype A_ { a: }", "\n@@"])
    if r < 0.85 and toks:
        i = rng.choice(toks)
        return text[:i] + rng.choice(["{", "}", "(", "$", "!!", ":"]) + text[i:]
    return rng.choice(["", "   ", "type", "{", text[: max(1, len(text) // 3)].rsplit("{", 1)[0] + "{"])


# characters that no GraphQL token may contain outside strings and comments, judged by an INDEPENDENT lexer (vt.pyparser.lex, the
# one the parser drop-in was validated against) - never by the engine's own SDL parser, whose grammar is part of what is checked
LEX_LETTERS = ["\u00e9", "\u00df", "\u044f", "\u0663", "\uff41", "\u00b2", "\u4e2d", "\u0301", "\u200d"]   # letters, digits, marks, joiner
LEX_ASCII = ["?", ";", "%", "^", "~", "`", "\\", "<", ">", "*", "/", "'", "+", "-"]
# blanks other than space / tab / LF / CR / BOM: not ignored tokens either; the engine's grammar deliberately ignores them
# (`WHITE_SPACE: /[\\s\\t]/+`, `LINE_TERMINATOR: /[\\f\\r\\n]/+`) - known finding `unicode-blank-outside-strings-ignored`
LEX_BLANKS = ["\u00a0", "\u2028", "\u000b", "\u000c", "\u3000", "\u0085", "\u2003"]


def lexical_damage(rng, text):
    """(damaged text, class) with ONE character inserted at a name token, or None.  class: 'letter' | 'ascii' | 'blank'."""
    from vt import pyparser
    raw = text.encode("utf-8")
    try:
        toks = [tk for tk in pyparser.lex(raw) if tk.kind == "NAME"]
    except Exception:  # noqa
        return None
    if not toks:
        return None
    starts = [0]
    for ln in raw.split(b"\n"):
        starts.append(starts[-1] + len(ln) + 1)
    tk = rng.choice(toks)
    off = starts[tk.sl - 1] + tk.sc - 1
    n = len(tk.value.encode("utf-8")) if isinstance(tk.value, str) else len(tk.value)
    if raw[off:off + n] != (tk.value.encode("utf-8") if isinstance(tk.value, str) else tk.value):
        return None          # CR line endings or the like: offsets unknown, skip
    r = rng.random()
    if r < 0.5:
        cls, ch, at = "letter", rng.choice(LEX_LETTERS), off + rng.choice([0, 1, n, rng.randrange(n + 1)])
    elif r < 0.8:
        cls, ch, at = "ascii", rng.choice(LEX_ASCII), off + rng.choice([0, n])
    else:
        cls, ch, at = "blank", rng.choice(LEX_BLANKS), off + rng.choice([0, n])
    out = raw[:at] + ch.encode("utf-8") + raw[at:]
    try:
        pyparser.lex(out)
    except pyparser.GQLSyntaxError:
        return out.decode("utf-8"), cls
    except Exception:  # noqa
        return None
    return None             # still a token sequence (e.g. `-` before a number): not lexically invalid


def make_bad_directive(tweak):
    kind, hook = tweak.split(":")

    class Bad:
        pass
    if kind == "badhook":
        def plain(self, *a, **k):
            return None
        setattr(Bad, hook, plain)
    elif kind == "badagen":
        async def agen(self, *a, **k):
            yield None
        setattr(Bad, hook, agen)
    else:
        async def coro(self, *a, **k):
            return None
        setattr(Bad, hook, coro)
    return Bad


async def run_case(ctx, rng, index):
    st = ctx.stats
    s = c11.gen_model(rng)
    base_parts = sdlgen.chunks(rng, s, 0.3)
    workroot = os.path.join(boot.BUILD, "sdl12_%d_%d" % (os.getpid(), index))
    try:
        try:
            b0 = harness.Bundle(s, sdl="\n\n".join(base_parts))
            await b0.build()
            b0.dispose()
        except Exception as e:  # noqa
            st.inc("base-model-refused")   # C11's business
            return
        rw = Rewrites(rng, s, 2 if ctx.tier == "quick" else 6)
        for k, r in enumerate(rw.all()):
            m = copy.deepcopy(s)
            if r["mut"]:
                r["mut"](m)
            if r["tweak"] == "force-schema-def":
                m.explicit_schema_def = True
            # duplicate members are checked against the base definition: print it unsplit so the re-added member is there
            parts = sdlgen.chunks(rng, m, 0.0 if r["rule"].startswith("extend-duplicate") else 0.2) + list(r["extra"])
            text = "\n\n".join(parts)
            if r["tweak"] == "syntax":
                text2 = damage(rng, text)
                try:
                    from tartiflette.language.parsers.lark import parse_to_document
                    parse_to_document(text2 + smodel.print_sdl(smodel.Schema()) if False else text2)
                    st.inc("syntax-damage-still-parses")
                    continue
                except Exception:  # noqa
                    pass
                parts = [text2]
            lex_cls = None
            if r["tweak"] == "lexical":
                dmg = lexical_damage(rng, text)
                if dmg is None:
                    st.inc("lexical-damage-not-applicable")
                    continue
                parts, lex_cls = [dmg[0]], dmg[1]
                r = dict(r, site="%s: one %s character inserted at a name" % (r["site"], lex_cls))
                st.inc("lexical-damage:" + lex_cls)
            mode = rng.choice(c11.MODES) if r["tweak"] not in ("syntax", "lexical") else rng.choice(["string", "file"])
            case = {"rule": r["rule"], "site": r["site"], "sdl": "\n\n".join(parts), "mode": mode}
            sdl = sdlgen.supply(rng, parts, mode, os.path.join(workroot, str(k)))
            b = harness.Bundle(m, sdl=sdl)
            if r["tweak"] and r["tweak"].startswith(("badhook", "badgen", "badagen")):
                m.directives["badHook_"] = DirectiveDef("badHook_", ["FIELD_DEFINITION", "FIELD"])
                m.directives["badHook_"].impl = "custom"
                from tartiflette import Directive
                Directive("badHook_", schema_name=b.name)(make_bad_directive(r["tweak"]))
            st.inc("evaluations")
            st.inc("rule:" + r["rule"])
            try:
                await b.build()
            except Exception as e:  # noqa
                st.inc("refused")
                st.distinct("refusal_exception_types", type(e).__name__)
                # audit: was it refused for the intended reason?  (a rewrite that trips another rule first - e.g. a syntax
                # error - would not exercise the clause it targets)
                full = exception_text(e)
                msg = full.lower()
                want = EXPECTED_REASON.get(r["rule"])
                if want and not any(w in msg for w in want) and not mentions_target(r, full):
                    st.inc("refused-for-another-reason:" + r["rule"])
                    if os.environ.get("VERIF_C12_AUDIT"):
                        print("AUDIT", r["rule"], "|", r["site"], "|", msg[:200])
                else:
                    st.inc("refused-for-intended-reason")
                st.distinct("nontrivial", (case["sdl"], r["rule"], r["site"]))
                if len(st.samples) < 3 and k % 7 == 0:
                    st.sample({"rule": r["rule"], "site": r["site"], "exception": repr(e)[:200]})
                continue
            finally:
                b.dispose()
            mech = "duplicate-member-across-two-extensions" if r["rule"] == "extend-duplicate-across-extensions" else None
            if lex_cls == "blank":
                mech = "unicode-blank-outside-strings-ignored"
            ctx.violation("engine-built-from-invalid-sdl", "%s @ %s (mode=%s)" % (r["rule"], r["site"], mode), case, mech)
    finally:
        shutil.rmtree(workroot, ignore_errors=True)
