"""C10 — built-in scalars obey their coercion laws."""
import datetime
import decimal
import fractions
import json
import math

from vt import boot, garbage, values
from vt.smodel import esc_string
from vt.values import canon

boot.init()

LEVEL = "exploration"
RULE = ("universe = %d fixed boundary/hostile values (0, +-1, +-2^31, +-2^31+-1, +-2^53, 10^400, integral and non-integral "
        "floats, +-0.0, denormals, 1e308, NaN, +-inf, numeric/blank/padded/unicode-digit/huge strings, bools, containers, "
        "Decimal/Fraction, subclasses, objects with raising dunders, ...) enumerated completely in every run, plus a seeded "
        "random tail of ints/floats/numeric strings around the boundaries; each value x {result coercion, input coercion, "
        "literal coercion} x {Int, Float, String, Boolean, ID} (+ Date/Time/DateTime on well-formed values), evaluated (a) "
        "on the scalar objects attached to a built schema and (b) through echo fields of Engine.execute (resolver return, "
        "variable, literal; every accepted variable also nested in a [S!] list literal and an {f: S!} object literal; every "
        "valid literal also as SDL default of an omitted argument / input field, literal- and variable-object routes) with "
        "(a)=(b) cross-checked. Oracle = three-valued law tables from the spec (must-accept with "
        "pinned value / must-reject / either-with-pinned-value), wire-type and value-denotation checks on every produced "
        "result, literal=variable on natural kinds, idempotence in(out(x)) and out(in(j)). non-trivial = (scalar, "
        "direction, value) triple; distinct by that triple")
N_FIXED = None  # filled below
ASSUMPTIONS = ["'either' rows follow the spec's 'may coerce when reasonable' clauses; only the value is pinned there"]
ANCHORS = [
    "tartiflette.scalar.builtins.int:ScalarInt.coerce_output",
    "tartiflette.scalar.builtins.int:ScalarInt.coerce_input",
    "tartiflette.scalar.builtins.int:ScalarInt.parse_literal",
    "tartiflette.scalar.builtins.float:ScalarFloat.coerce_output",
    "tartiflette.scalar.builtins.float:ScalarFloat.coerce_input",
    "tartiflette.scalar.builtins.float:ScalarFloat.parse_literal",
    "tartiflette.scalar.builtins.string:ScalarString.coerce_output",
    "tartiflette.scalar.builtins.string:ScalarString.coerce_input",
    "tartiflette.scalar.builtins.boolean:ScalarBoolean.coerce_output",
    "tartiflette.scalar.builtins.boolean:ScalarBoolean.coerce_input",
    "tartiflette.scalar.builtins.id:ScalarID.coerce_output",
    "tartiflette.scalar.builtins.id:ScalarID.coerce_input",
    "tartiflette.scalar.builtins.id:ScalarID.parse_literal",
    "tartiflette.scalar.builtins.date:ScalarDate.coerce_input",
    "tartiflette.scalar.builtins.datetime:ScalarDateTime.coerce_output",
    "tartiflette.utils.values:is_integer",
    "tartiflette.coercers.inputs.scalar_coercer:scalar_coercer",
    "tartiflette.coercers.literals.scalar_coercer:scalar_coercer",
    "tartiflette.coercers.outputs.scalar_coercer:scalar_coercer",
]

IMIN, IMAX = -2 ** 31, 2 ** 31 - 1
SCALARS = ["Int", "Float", "String", "Boolean", "ID"]

EXTRA = [
    lambda: 2, lambda: -2, lambda: IMAX - 1, lambda: IMIN + 1, lambda: 2 ** 31 + 1, lambda: 2 ** 32, lambda: 2 ** 63, lambda: -2 ** 63,
    lambda: 2 ** 53 - 1, lambda: -2 ** 53, lambda: 1e15, lambda: 1e16, lambda: 2147483647.0, lambda: -2147483648.0, lambda: 2147483647.5,
    lambda: 0.1, lambda: -0.1, lambda: 0.5, lambda: 1e-10, lambda: 2.0 ** 31, lambda: -2.0 ** 31 - 1, lambda: 1e100, lambda: 9007199254740993.0,
    lambda: "2", lambda: "-2", lambda: "+1", lambda: "2147483647", lambda: "-2147483648", lambda: "-2147483649", lambda: "2.0", lambda: "2.5",
    lambda: ".5", lambda: "5.", lambda: "1e2", lambda: "1E2", lambda: "1e-2", lambda: "0b1", lambda: "1,0", lambda: "١٢", lambda: "１２",
    lambda: "--1", lambda: "1-", lambda: "1 2", lambda: "\t3\n", lambda: "three", lambda: "True", lambda: "None", lambda: "null", lambda: "0.0",
    lambda: "-0", lambda: "00", lambda: "007", lambda: "9" * 400, lambda: "1" + "0" * 400, lambda: "1e400", lambda: "-1e400",
    lambda: [1], lambda: [[]], lambda: {"value": 1}, lambda: (1,), lambda: {1}, lambda: b"1", lambda: bytearray(b"1"),
    lambda: decimal.Decimal("2147483648"), lambda: decimal.Decimal("-0"), lambda: decimal.Decimal("1E+2"), lambda: fractions.Fraction(3, 1),
    lambda: fractions.Fraction(-7, 2), lambda: complex(2, 0), lambda: complex(0, 1),
    # exact non-integral numbers that ROUND to an integer in double precision (integrality must be decided exactly)
    lambda: decimal.Decimal("41.99999999999999999999"), lambda: decimal.Decimal("1.0000000000000000000001"),
    lambda: decimal.Decimal("2147483646.9999999999999"), lambda: decimal.Decimal("-0.00000000000000000000001"),
    lambda: fractions.Fraction(2 ** 70 + 1, 2 ** 70), lambda: fractions.Fraction(-(2 ** 80) - 1, 2 ** 80),
    lambda: decimal.Decimal("2147483647.00000000000000000000"), lambda: fractions.Fraction(2 ** 90, 2 ** 89),
]
UNIVERSE = garbage.FACTORIES + EXTRA
N_FIXED = len(UNIVERSE)
RULE = RULE % N_FIXED
N_CASES = {"quick": N_FIXED + 700, "thorough": N_FIXED + 40000}
MIN_NONTRIVIAL = 1000


def random_value(rng):
    r = rng.random()
    base = rng.choice([0, 1, -1, IMAX, IMIN, 2 ** 53, -2 ** 53, 10 ** rng.randint(0, 40)])
    if r < 0.3:
        return base + rng.randint(-3, 3)
    if r < 0.5:
        return float(base) + rng.choice([0.0, 0.5, -0.5, 1.0, -1.0, 1e-9])
    if r < 0.6:
        return rng.uniform(-1e3, 1e3)
    if r < 0.7:
        return rng.choice([1, -1]) * 10.0 ** rng.randint(-320, 308)
    if r < 0.74:
        # exact rationals a hair away from (or exactly at) an integer
        k = rng.randint(55, 120)
        return rng.choice([fractions.Fraction(base * 2 ** k + rng.choice([0, 1, -1]), 2 ** k),
                           decimal.Decimal(base) + decimal.Decimal(rng.choice([0, 1, -1])).scaleb(-rng.randint(17, 40))])
    if r < 0.9:
        v = rng.choice([base + rng.randint(-2, 2), float(base) + rng.choice([0.0, 0.5])])
        s = repr(v)
        return rng.choice(["", " ", "+"]) + s + rng.choice(["", " ", "e0", ".0", "_"])
    return "".join(rng.choice("0123456789.eE+-_ xaé") for _ in range(rng.randint(1, 8)))


# ------------------------------------------------------------------ numeric helpers

def as_number(v):
    """Exact numeric reading of a Python value, or None.  (bools excluded)"""
    if isinstance(v, bool):
        return None
    if isinstance(v, int):
        return fractions.Fraction(v)
    if isinstance(v, float):
        return fractions.Fraction(v) if math.isfinite(v) else None
    if isinstance(v, decimal.Decimal):
        return fractions.Fraction(v) if v.is_finite() else None
    if isinstance(v, fractions.Fraction):
        return v
    return None


def string_number(s):
    """Numeric reading of a string the way a lenient server may read it (Python float syntax), or None."""
    try:
        f = float(s)
    except (ValueError, OverflowError):
        return None
    if not math.isfinite(f):
        return None
    return fractions.Fraction(f)


FAIL, OK, EITHER = "fail", "ok", "either"


CLEARLY_NOT_SCALAR = (list, dict, tuple, set, frozenset, bytes, bytearray, memoryview, BaseException, type, type(None))


def expect_out(S, v):
    """(status, check) where check(result) -> None | reason.
    Values of kinds the tables do not mention (arbitrary objects) are 'either' with only the wire type pinned."""
    st, chk = _expect_out(S, v)
    if st == FAIL and S != "String" and not isinstance(v, CLEARLY_NOT_SCALAR + (str, int, float, complex, decimal.Decimal, fractions.Fraction)) \
            and not callable(v):
        return EITHER, (lambda r: wire_only(S, r))
    return st, chk


def wire_only(S, r):
    if S == "Int":
        return None if isinstance(r, int) and not isinstance(r, bool) and IMIN <= r <= IMAX else "Int wire value %s" % garbage.describe(r)
    if S == "Float":
        return None if isinstance(r, float) and math.isfinite(r) else "Float wire value %s" % garbage.describe(r)
    if S == "Boolean":
        return None if isinstance(r, bool) else "Boolean wire value %s" % garbage.describe(r)
    return None if isinstance(r, str) else "%s wire value %s" % (S, garbage.describe(r))


def _expect_out(S, v):
    n = as_number(v)
    if S == "Int":
        def chk(r, want):
            if isinstance(r, bool) or not isinstance(r, int):
                return "Int result must be a Python int, got %s" % garbage.describe(r)
            if not IMIN <= r <= IMAX:
                return "Int result out of 32-bit range: %r" % r
            if fractions.Fraction(r) != want:
                return "Int result %r does not denote the input (%s): truncated/wrapped?" % (r, want)
            return None
        if type(v) is int:
            return (OK, lambda r: chk(r, n)) if IMIN <= v <= IMAX else (FAIL, None)
        if isinstance(v, bool):
            return EITHER, lambda r: chk(r, fractions.Fraction(int(v)))
        if n is not None:
            if n.denominator == 1 and IMIN <= n <= IMAX:
                return EITHER, lambda r: chk(r, n)
            return FAIL, None
        if isinstance(v, str):
            sn = string_number(v)
            if sn is not None and sn.denominator == 1 and IMIN <= sn <= IMAX:
                return EITHER, lambda r: chk(r, sn)
            return FAIL, None
        return FAIL, None
    if S == "Float":
        def chk(r, want):
            if type(r) is int and abs(r) < 2 ** 1000:
                r = float(r)    # an int within double range is the same JSON number as its nearest double
            if not isinstance(r, float):
                return "Float result must be a finite double (float, or an int within double range), got %s" % garbage.describe(r)
            if not math.isfinite(r):
                return "Float result must be finite, got %r" % r
            if want is not None and r != float(want):
                return "Float result %r does not denote the input %s" % (r, float(want))
            return None
        if isinstance(v, bool):
            return EITHER, lambda r: chk(r, fractions.Fraction(int(v)))
        if type(v) in (int, float):
            if n is None:
                return FAIL, None
            try:
                float(v)
            except OverflowError:
                return FAIL, None
            return OK, lambda r: chk(r, n)
        if n is not None:
            try:
                float(n)
            except OverflowError:
                return FAIL, None
            return EITHER, lambda r: chk(r, n)
        if isinstance(v, (int, float)):   # subclasses
            if isinstance(v, float) and not math.isfinite(v):
                return FAIL, None
            return EITHER, lambda r: chk(r, as_number(float(v)) if isinstance(v, float) else fractions.Fraction(int(v)))
        if isinstance(v, str):
            sn = string_number(v)
            if sn is not None:
                return EITHER, lambda r: chk(r, sn)
            return FAIL, None
        return FAIL, None
    if S == "String":
        def chk(r):
            return None if isinstance(r, str) else "String result must be text, got %s" % garbage.describe(r)
        if type(v) is str:
            return OK, lambda r: chk(r) or (None if r == v else "String result %r != input %r" % (r[:50], v[:50]))
        return EITHER, chk
    if S == "Boolean":
        def chk(r, want):
            if type(r) is not bool:
                return "Boolean result must be a bool, got %s" % garbage.describe(r)
            if r != want:
                return "Boolean result %r does not denote the input" % r
            return None
        if type(v) is bool:
            return OK, lambda r: chk(r, v)
        if n is not None:
            return EITHER, lambda r: chk(r, n != 0)
        if isinstance(v, (int, float)) and not isinstance(v, bool):
            if isinstance(v, float) and not math.isfinite(v):
                return FAIL, None
            return EITHER, lambda r: chk(r, v != 0)
        return FAIL, None
    if S == "ID":
        def chk(r, want):
            if not isinstance(r, str):
                return "ID result must be text, got %s" % garbage.describe(r)
            if want is not None and r != want:
                return "ID result %r does not denote the input (%r)" % (r[:50], want[:50])
            return None
        if type(v) is str:
            return OK, lambda r: chk(r, v)
        if type(v) is int:
            return OK, lambda r: chk(r, str(v))
        if isinstance(v, bool):
            return FAIL, None
        if n is not None and n.denominator == 1:
            return EITHER, lambda r: chk(r, str(int(n)))
        if isinstance(v, str):
            return EITHER, lambda r: chk(r, str(v))
        if isinstance(v, int):
            return EITHER, lambda r: chk(r, str(int(v)))
        return FAIL, None
    raise ValueError(S)


def is_json_value(v):
    return v is None or type(v) in (bool, int, float, str, list, dict)


def expect_in(S, j):
    """Input coercion of a JSON value (what json.loads can produce, plus NaN/inf floats)."""
    if S == "Int":
        if type(j) is int:
            return (OK, j) if IMIN <= j <= IMAX else (FAIL, None)
        if type(j) is float and math.isfinite(j) and j == math.floor(j) and IMIN <= j <= IMAX:
            return EITHER, int(j)
        return FAIL, None
    if S == "Float":
        if type(j) in (int, float):
            try:
                f = float(j)
            except OverflowError:
                return FAIL, None
            return (OK, f) if math.isfinite(f) else (FAIL, None)
        return FAIL, None
    if S == "String":
        return (OK, j) if type(j) is str else (FAIL, None)
    if S == "Boolean":
        return (OK, j) if type(j) is bool else (FAIL, None)
    if S == "ID":
        if type(j) is str:
            return OK, j
        if type(j) is int:
            return OK, str(j)
        if type(j) is float and math.isfinite(j) and j == math.floor(j):
            return EITHER, str(int(j))
        return FAIL, None
    raise ValueError(S)


def base_type(x):
    for t in (bool, int, float, str):
        if isinstance(x, t):
            return t
    return type(x)


def same(a, b):
    return base_type(a) is base_type(b) and (a == b or (a != a and b != b))


def same_number(S, a, b):
    """Float only: an int and the float it rounds to are the same value (the statement speaks of values, not of Python types)."""
    if S != "Float" or any(isinstance(x, bool) or not isinstance(x, (int, float)) for x in (a, b)):
        return False
    try:
        return float(a) == float(b)
    except OverflowError:
        return False


# ------------------------------------------------------------------ engine with echo fields

_ENGINE = {}
SDL = """
type Query {
  outInt: Int  outFloat: Float  outString: String  outBoolean: Boolean  outID: ID
  outDate: Date outTime: Time outDateTime: DateTime
  inInt(v: Int): String  inFloat(v: Float): String  inString(v: String): String  inBoolean(v: Boolean): String  inID(v: ID): String
  inDate(v: Date): String inTime(v: Time): String inDateTime(v: DateTime): String
  inListInt(v: [Int!]): String  inListFloat(v: [Float!]): String  inListString(v: [String!]): String  inListBoolean(v: [Boolean!]): String  inListID(v: [ID!]): String
  inObjInt(v: ObjInt): String  inObjFloat(v: ObjFloat): String  inObjString(v: ObjString): String  inObjBoolean(v: ObjBoolean): String  inObjID(v: ObjID): String
}
input ObjInt { f: Int! }
input ObjFloat { f: Float! }
input ObjString { f: String! }
input ObjBoolean { f: Boolean! }
input ObjID { f: ID! }
"""
ALL = SCALARS + ["Date", "Time", "DateTime"]


async def engine():
    if "e" in _ENGINE:
        return _ENGINE["e"]
    from tartiflette import Engine, Resolver
    name = boot.fresh_schema_name("c10")
    for S in ALL:
        def mk(S=S):
            async def out(parent, args, ctx, info):
                return ctx["value"]

            async def inn(parent, args, ctx, info):
                ctx["seen"].append(args)
                return "called"
            Resolver("Query.out" + S, schema_name=name)(out)
            Resolver("Query.in" + S, schema_name=name)(inn)
            if S in SCALARS:
                Resolver("Query.inList" + S, schema_name=name)(inn)
                Resolver("Query.inObj" + S, schema_name=name)(inn)
        mk()
    e = Engine(SDL, schema_name=name)
    await e.cook()
    _ENGINE["e"] = e
    _ENGINE["scalars"] = {S: boot.schema_of(e, name).find_scalar(S) for S in ALL}
    return e


_NOT_DELIVERED = object()


async def sdl_default_delivery(S, text):
    """[(where, value the resolver received)] for `text` used as SDL default of an argument and of an input field."""
    from tartiflette import Engine, Resolver
    name = boot.fresh_schema_name("c10d")
    seen = []

    async def rec(parent, args, ctx, info):
        seen.append(args)
        return "called"
    Resolver("Query.arg", schema_name=name)(rec)
    Resolver("Query.obj", schema_name=name)(rec)
    sdl = "input I {\n  f: %s = %s\n  g: Int\n}\n\ntype Query {\n  arg(v: %s = %s): String\n  obj(o: I): String\n}\n" % (S, text, S, text)
    out = []
    try:
        e = Engine(sdl, schema_name=name)
        await e.cook()
        await e.execute("{ arg }")
        out.append(("argument", seen[-1].get("v", _NOT_DELIVERED) if seen else _NOT_DELIVERED))
        n = len(seen)
        await e.execute("{ obj(o: {g: 1}) }")
        out.append(("input field (literal object)", (seen[-1].get("o") or {}).get("f", _NOT_DELIVERED) if len(seen) > n else _NOT_DELIVERED))
        n = len(seen)
        await e.execute("query($o: I) { obj(o: $o) }", variables={"o": {"g": 1}})
        out.append(("input field (variable object)", (seen[-1].get("o") or {}).get("f", _NOT_DELIVERED) if len(seen) > n else _NOT_DELIVERED))
    except Exception:  # noqa  the engine may refuse a default at build time: not this property's business
        return []
    finally:
        boot.forget_schema(name)
    return out


def direct(fn, *a):
    try:
        return ("ok", fn(*a))
    except Exception as e:  # noqa
        return ("raised", e)


def lit_text(j):
    """Literal spelling of a JSON scalar value, or None."""
    if type(j) is bool:
        return "true" if j else "false"
    if type(j) is int:
        return str(j)
    if type(j) is float:
        if not math.isfinite(j):
            return None
        r = repr(j)
        return r if ("e" in r or "." in r) else r + ".0"
    if type(j) is str:
        try:
            j.encode("utf-8")
        except UnicodeEncodeError:
            return None
        return esc_string(j)
    return None


def lit_kind(j):
    return {bool: "bool", int: "int", float: "float", str: "string"}.get(type(j))


def expect_lit(S, j):
    k = lit_kind(j)
    if S == "Int":
        return (OK, j) if k == "int" and IMIN <= j <= IMAX else (FAIL, None)
    if S == "Float":
        if k in ("int", "float"):
            try:
                f = float(j)
            except OverflowError:
                return FAIL, None
            return (OK, f) if math.isfinite(f) else (FAIL, None)
        return FAIL, None
    if S == "String":
        return (OK, j) if k == "string" else (FAIL, None)
    if S == "Boolean":
        return (OK, j) if k == "bool" else (FAIL, None)
    if S == "ID":
        if k == "string":
            return OK, j
        if k == "int":
            return OK, str(j)
        return FAIL, None
    raise ValueError(S)


async def check_value(ctx, v_factory, label):
    st = ctx.stats
    e = await engine()
    sc = _ENGINE["scalars"]
    for S in SCALARS:
        # ---------------- result coercion
        v = v_factory()
        if v is not None:
            status, chk = expect_out(S, v)
            d = direct(sc[S].coerce_output, v)
            st.inc("evaluations")
            st.distinct("nontrivial", (S, "out", label))
            case = {"scalar": S, "direction": "result", "value": garbage.describe(v)}
            if d[0] == "ok":
                if status == FAIL:
                    ctx.violation("result-coercion-accepted-forbidden-value", "%s.coerce_output(%s) -> %s" % (S, garbage.describe(v), garbage.describe(d[1])), case)
                else:
                    why = chk(d[1])
                    if why:
                        ctx.violation("result-coercion-wrong-value", "%s.coerce_output(%s): %s" % (S, garbage.describe(v), why), case)
                    else:
                        # idempotence: the produced result fed back as input yields the same value
                        back = direct(sc[S].coerce_input, d[1])
                        if back[0] != "ok" or not (same(back[1], d[1]) or same_number(S, back[1], d[1])):
                            ctx.violation("not-idempotent", "%s: in(out(%s)=%s) -> %s" % (S, garbage.describe(v), garbage.describe(d[1]), garbage.describe(back[1])), case)
            elif status == OK:
                ctx.violation("result-coercion-rejected-required-value", "%s.coerce_output(%s) raised %r" % (S, garbage.describe(v), d[1]), case)
            # through the engine
            try:
                resp = await e.execute("{ out%s }" % S, context={"value": v, "seen": []})
            except Exception as ex:  # noqa
                ctx.violation("execute-raised", repr(ex), case)
                continue
            st.inc("evaluations")
            got = resp.get("data", {}) and resp["data"].get("out" + S)
            if d[0] == "ok" and not isinstance(v, Exception):
                if resp.get("errors") or not same(got, d[1]):
                    # generators etc. are consumed by the first call: compare only re-creatable values
                    ctx.violation("engine-differs-from-scalar-object", "out%s(%s): engine %s vs direct %s" % (S, garbage.describe(v), repr(resp)[:200], garbage.describe(d[1])), case)
            elif d[0] == "raised" and (not resp.get("errors") or got is not None):
                ctx.violation("engine-differs-from-scalar-object", "out%s(%s): direct raised, engine %s" % (S, garbage.describe(v), repr(resp)[:200]), case)
        # ---------------- input coercion (JSON values only)
        j = v_factory()
        if is_json_value(j) and j is not None and type(j) not in (list, dict):
            status, want = expect_in(S, j)
            d = direct(sc[S].coerce_input, j)
            st.inc("evaluations")
            st.distinct("nontrivial", (S, "in", label))
            case = {"scalar": S, "direction": "input", "value": garbage.describe(j)}
            if d[0] == "ok":
                if status == FAIL:
                    ctx.violation("input-coercion-accepted-forbidden-kind", "%s.coerce_input(%s) -> %s" % (S, garbage.describe(j), garbage.describe(d[1])), case)
                elif not same(d[1], want):
                    ctx.violation("input-coercion-wrong-value", "%s.coerce_input(%s) -> %s, expected %s" % (S, garbage.describe(j), garbage.describe(d[1]), garbage.describe(want)), case)
                else:
                    o = direct(sc[S].coerce_output, d[1])
                    if o[0] == "ok":
                        o2 = direct(sc[S].coerce_input, o[1])
                        if o2[0] != "ok" or not same(o2[1], d[1]) and S != "Float":
                            ctx.violation("not-idempotent", "%s: in(out(in(%s))) -> %s" % (S, garbage.describe(j), garbage.describe(o2[1])), case)
            elif status == OK:
                ctx.violation("input-coercion-rejected-required-kind", "%s.coerce_input(%s) raised %r" % (S, garbage.describe(j), d[1]), case)
            # engine: variable
            try:
                json.dumps(j)
                seen = []
                resp = await e.execute("query($v: %s) { in%s(v: $v) }" % (S, S), variables={"v": j}, context={"seen": seen})
                st.inc("evaluations")
                accepted = bool(seen)
                if accepted != (d[0] == "ok") or (accepted and not same(seen[0].get("v"), d[1])):
                    ctx.violation("engine-differs-from-scalar-object", "variable %s=%s: engine delivered %s, direct %s" % (S, garbage.describe(j), seen[:1], d), case)
                if not accepted and (resp.get("data") is not None or not resp.get("errors")):
                    ctx.violation("invalid-variable-not-refused", repr(resp)[:200], case)
                if accepted and d[0] == "ok":
                    # the same variable nested in a list / object literal at a non-null position carries the same value
                    for q, wrap in (("query($v: %s!) { inList%s(v: [$v]) }" % (S, S), lambda x: [x]),
                                    ("query($v: %s!) { inObj%s(v: {f: $v}) }" % (S, S), lambda x: {"f": x}),
                                    # the bare value for a list-typed variable: one item, the value itself (never its parts)
                                    ("query($v: [%s!]) { inList%s(v: $v) }" % (S, S), lambda x: [x])):
                        seen = []
                        await e.execute(q, variables={"v": j}, context={"seen": seen})
                        st.inc("evaluations")
                        st.inc("nested_variable_spellings")
                        got = seen[0].get("v") if seen else _NOT_DELIVERED
                        want_n = wrap(d[1])
                        try:
                            inner = got["f"] if isinstance(want_n, dict) else got[0]
                            shape_ok = type(got) is type(want_n) and len(got) == 1
                        except Exception:  # noqa
                            inner, shape_ok = None, False
                        if got is _NOT_DELIVERED or not shape_ok or not same(inner, d[1]):
                            ctx.violation("nested-variable-differs-from-variable", "%s=%s nested in a literal: delivered %s, plain variable %s" % (
                                S, garbage.describe(j), "nothing" if got is _NOT_DELIVERED else garbage.describe(got), garbage.describe(d[1])), dict(case, query=q))
            except (ValueError, TypeError):
                pass
            # literal
            text = lit_text(j)
            if text is not None:
                lstatus, lwant = expect_lit(S, j)
                seen = []
                q = "{ in%s(v: %s) }" % (S, text)
                try:
                    resp = await e.execute(q, context={"seen": seen})
                except Exception as ex:  # noqa
                    ctx.violation("execute-raised", repr(ex), case)
                    continue
                st.inc("evaluations")
                st.distinct("nontrivial", (S, "lit", label))
                if seen:
                    got = seen[0].get("v")
                    if lstatus == FAIL:
                        ctx.violation("literal-accepted-forbidden-kind", "%s literal %s delivered %s" % (S, text[:60], garbage.describe(got)), dict(case, query=q[:300]))
                    elif not same(got, lwant):
                        ctx.violation("literal-wrong-value", "%s literal %s delivered %s, expected %s" % (S, text[:60], garbage.describe(got), garbage.describe(lwant)), dict(case, query=q[:300]))
                    if status != FAIL and d[0] == "ok" and lstatus == OK and not same(got, d[1]):
                        ctx.violation("literal-differs-from-variable", "%s: literal %s -> %s, variable -> %s" % (S, text[:60], garbage.describe(got), garbage.describe(d[1])), dict(case, query=q[:300]))
                elif lstatus == OK:
                    ctx.violation("literal-rejected-required-kind", "%s literal %s: %s" % (S, text[:60], repr(resp)[:200]), dict(case, query=q[:300]))
                # the same literal written in the SDL (default of an omitted argument / of an omitted input field): the SDL
                # parser builds its own value nodes, the scalar must treat them like the query parser's
                if lstatus == OK and seen:
                    for where, got2 in await sdl_default_delivery(S, text):
                        st.inc("evaluations")
                        st.inc("sdl_default_literals")
                        if got2 is _NOT_DELIVERED:
                            ctx.violation("literal-rejected-required-kind", "%s literal %s as SDL default of %s: not delivered" % (S, text[:60], where), dict(case, sdl_default=text[:300]))
                        elif not same(got2, lwant):
                            ctx.violation("literal-wrong-value", "%s literal %s as SDL default of %s delivered %s, expected %s" % (
                                S, text[:60], where, garbage.describe(got2), garbage.describe(lwant)), dict(case, sdl_default=text[:300]))


DT = [datetime.datetime(2020, 1, 2, 3, 4, 5), datetime.datetime(1999, 12, 31, 23, 59, 59), datetime.datetime(2000, 2, 29, 0, 0, 0),
      datetime.datetime(1900, 1, 1, 0, 0, 1),
      # boundaries of the textual form: years with fewer than four digits, the extremes, single-digit fields
      datetime.datetime(999, 12, 31, 1, 2, 3), datetime.datetime(1000, 1, 1, 0, 0, 0), datetime.datetime(1, 1, 1, 0, 0, 0),
      datetime.datetime(9999, 12, 31, 23, 59, 59), datetime.datetime(70, 3, 4, 5, 6, 7), datetime.datetime(2024, 2, 29, 12, 0, 0)]


async def check_dates(ctx):
    st = ctx.stats
    e = await engine()
    sc = _ENGINE["scalars"]
    for dt in DT:
        d_text = "%04d-%02d-%02d" % (dt.year, dt.month, dt.day)          # ISO 8601: four-digit year (strftime's %Y is not padded)
        t_text = "%02d:%02d:%02d" % (dt.hour, dt.minute, dt.second)
        for S, text in (("Date", d_text), ("Time", t_text), ("DateTime", d_text + "T" + t_text)):
            case = {"scalar": S, "value": text}
            st.inc("evaluations", 3)
            st.distinct("nontrivial", (S, "roundtrip", text))
            o = direct(sc[S].coerce_output, dt)
            if o[0] != "ok" or o[1] != text:
                ctx.violation("date-result-coercion", "%s.coerce_output(%r) -> %r, expected %r" % (S, dt, o[1], text), case)
                continue
            i = direct(sc[S].coerce_input, text)
            if i[0] != "ok" or not isinstance(i[1], datetime.datetime):
                ctx.violation("date-input-coercion", "%s.coerce_input(%r) -> %r" % (S, text, i[1]), case)
                continue
            o2 = direct(sc[S].coerce_output, i[1])
            if o2[0] != "ok" or o2[1] != text:
                ctx.violation("not-idempotent", "%s: out(in(%r)) -> %r" % (S, text, o2[1]), case)
            seen, seen2 = [], []
            r1 = await e.execute("query($v: %s) { in%s(v: $v) }" % (S, S), variables={"v": text}, context={"seen": seen})
            r2 = await e.execute('{ in%s(v: "%s") }' % (S, text), context={"seen": seen2})
            if not seen or not seen2 or seen[0].get("v") != seen2[0].get("v") or seen[0].get("v") != i[1]:
                ctx.violation("literal-differs-from-variable", "%s %r: variable %s literal %s direct %r" % (S, text, seen[:1], seen2[:1], i[1]), case)
            r3 = await e.execute("{ out%s }" % S, context={"value": dt, "seen": []})
            if (r3.get("data") or {}).get("out" + S) != text:
                ctx.violation("engine-differs-from-scalar-object", "out%s(%r): %r" % (S, dt, r3), case)
        for S, bad in (("Date", "2020-13-01"), ("Date", "20200101"), ("Time", "25:00:00"), ("DateTime", "2020-01-01 00:00:00"), ("Date", 20200101)):
            i = direct(sc[S].coerce_input, bad)
            st.inc("evaluations")
            if i[0] == "ok":
                ctx.violation("date-input-accepted-malformed", "%s.coerce_input(%r) -> %r" % (S, bad, i[1]), {"scalar": S, "value": repr(bad)})


async def run_case(ctx, rng, index):
    if index < N_FIXED:
        f = UNIVERSE[index]
        label = "fixed#%d:%s" % (index, garbage.describe(f()))
        await check_value(ctx, f, label)
        ctx.stats.inc("fixed_universe_values")
        if index < 3:
            ctx.stats.sample({"value": garbage.describe(f()), "checked": "5 scalars x result/input/literal, direct + via Engine.execute"})
        if index == 0:
            await check_dates(ctx)
    else:
        v = random_value(rng)
        await check_value(ctx, lambda: v, "rnd:" + garbage.describe(v))
        ctx.stats.inc("random_tail_values")
