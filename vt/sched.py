"""Controlled asyncio scheduler.

tartiflette's only suspension points are awaits of user coroutines (resolvers, directive
hooks, sources, error coercers).  Every such coroutine handed out by the harness first
awaits `sched.gate(key)`.  A driver coroutine waits until the event loop is quiescent (ready
queue empty: everything runnable has run and all that is alive is parked on a gate), then
releases exactly one parked gate chosen by a *choice function*.  The sequence of choices is
the schedule; stateless replay of choice prefixes enumerates all schedules (DFS).
"""
import asyncio
import threading
import time
import gc


class Stuck(Exception):
    pass


class Sched:
    def __init__(self, choose, step_bound=100000):
        self.choose = choose          # (sorted keys, step) -> index
        self.blocked = {}
        self.log = []
        self.steps = 0
        self.choices = []             # (index chosen, number of alternatives)
        self.step_bound = step_bound
        self.multi = {}

    async def gate(self, key, multi=False):
        """multi: the same key may legitimately occur several times (numbered per occurrence)."""
        k = key
        if multi:
            n = self.multi[key] = self.multi.get(key, 0) + 1
            k = "%s~%d" % (key, n)
        n = 0
        while k in self.blocked:      # same key parked twice at once
            n += 1
            k = "%s~dup%d" % (key, n)
        self.log.append(("start", k))
        fut = asyncio.get_running_loop().create_future()
        self.blocked[k] = fut
        await fut
        self.log.append(("resume", k))

    async def drive(self, tasks):
        """Run until every task in `tasks` is done."""
        loop = asyncio.get_running_loop()
        ready = loop._ready
        idle = 0
        while not all(t.done() for t in tasks):
            await asyncio.sleep(0)
            if ready:
                idle = 0
                continue
            if not self.blocked:
                if timer_due_soon(loop):
                    await asyncio.sleep(0.001)      # a timer is about to fire: the loop is not quiescent
                    continue
                idle += 1
                if idle > 3 and quiescent_for_good(self):
                    raise Stuck("nothing runnable, nothing gated, request not finished")
                continue
            idle = 0
            self.idle_since = None
            keys = sorted(self.blocked)
            i = self.choose(keys, self.steps)
            if not 0 <= i < len(keys):
                i = 0
            self.choices.append((i, len(keys)))
            self.steps += 1
            if self.steps > self.step_bound:
                raise Stuck("step bound exceeded")
            k = keys[i]
            self.log.append(("release", k, len(keys)))
            self.blocked.pop(k).set_result(None)

    def release_order(self):
        return tuple(e[1] for e in self.log if e[0] == "release")

    def check_log(self):
        """Offline well-formedness of the history: one start, one release, one resume per gate."""
        problems = []
        started, resumed = {}, {}
        for e in self.log:
            if e[0] == "start":
                started[e[1]] = started.get(e[1], 0) + 1
            elif e[0] == "resume":
                resumed[e[1]] = resumed.get(e[1], 0) + 1
        for k, n in started.items():
            if n != 1:
                problems.append("gate %s started %d times" % (k, n))
            if resumed.get(k, 0) != 1:
                problems.append("gate %s started but resumed %d times" % (k, resumed.get(k, 0)))
        if self.blocked:
            problems.append("still parked after completion: %s" % sorted(self.blocked)[:5])
        return problems


def prefix_chooser(prefix, tail="first", rng=None):
    def choose(keys, step):
        if step < len(prefix):
            return prefix[step]
        if tail == "first":
            return 0
        if tail == "last":
            return len(keys) - 1
        return rng.randrange(len(keys))
    return choose


GRACE_S = 3.0


def quiescent_for_good(state):
    """Nothing ready, nothing gated, no timer.  Without another thread nothing can ever wake the loop again: stuck, now.
    With other threads alive (an engine that parses in an executor, ...) a result may still be posted: real time is given
    (GRACE_S of uninterrupted quiescence) before the verdict."""
    if threading.active_count() <= 1:
        return True
    now = time.monotonic()
    if getattr(state, "idle_since", None) is None:
        state.idle_since = now
    if now - state.idle_since > GRACE_S:
        return True
    time.sleep(0.002)
    return False


async def run_scheduled(make_coros, choose, step_bound=100000):
    """make_coros(sched) -> list of coroutines (the requests).  Returns (results, sched, stray).
    results[i] is the value or the exception of coroutine i."""
    sched = Sched(choose, step_bound)
    coros = make_coros(sched)
    before = set(asyncio.all_tasks())
    tasks = [asyncio.ensure_future(c) for c in coros]
    stuck = None
    try:
        await sched.drive(tasks)
    except Stuck as e:
        stuck = e
        for t in tasks:
            t.cancel()
        for fut in sched.blocked.values():
            if not fut.done():
                fut.cancel()
        await asyncio.gather(*tasks, return_exceptions=True)
    results = []
    for t in tasks:
        if t.cancelled():
            results.append(stuck or asyncio.CancelledError())
        elif t.exception() is not None:
            results.append(t.exception())
        else:
            results.append(t.result())
    await asyncio.sleep(0)
    alive = [t for t in asyncio.all_tasks() if t not in before and t is not asyncio.current_task() and not t.done()]
    stray = []
    if alive and stuck is None:
        # Tasks outliving the request matter to the statement only when USER code (resolver, directive hook, source: every
        # one of them passes a gate) is involved: suspended at a gate right now, or entered later while the leftovers run on.
        suspended = sorted(sched.blocked)
        mark = len(sched.log)
        for _ in range(2000):
            if all(t.done() for t in alive):
                break
            for k in list(sched.blocked):
                fut = sched.blocked.pop(k)
                if not fut.done():
                    fut.set_result(None)
            await asyncio.sleep(0)
            if not loop_busy():
                break
        late = [e for e in sched.log[mark:] if e[0] == "start"]
        if suspended or late:
            stray = ["user code outlives the request: suspended at return %s, entered afterwards %s; tasks %s" % (
                suspended[:4], [e[1] for e in late[:4]], [repr(t)[:120] for t in alive[:2]])]
        else:
            sched.other_tasks_alive = len(alive)     # engine housekeeping without user code: counted, not judged
        for t in alive:
            if not t.done():
                t.cancel()
    return results, sched, stray, stuck


def timer_due_soon(loop, horizon=5.0):
    """A pending timer that fires within `horizon` seconds can still wake the request; a housekeeping timer far in the future
    (or a cancelled one left in the heap) must not postpone the 'stuck' verdict for ever."""
    now = loop.time()
    for h in getattr(loop, "_scheduled", None) or ():
        if not getattr(h, "_cancelled", False) and getattr(h, "_when", now) - now <= horizon:
            return True
    return False


def loop_busy():
    loop = asyncio.get_running_loop()
    return bool(loop._ready) or timer_due_soon(loop)


async def collect_schedules(run_once, cap, rng, sample_tail=0):
    """Returns (runs, exhaustive).  runs: list of (prefix, outcome, sched)."""
    frontier = [[]]
    runs = []
    exhaustive = True
    truncated = False
    while frontier:
        if len(runs) >= cap:
            exhaustive = False
            break
        entry = frontier.pop()
        # entries are lazy: (choices of the run they branch from, depth, alternative); the prefix is built when popped
        prefix = entry if isinstance(entry, list) else [c[0] for c in entry[0][:entry[1]]] + [entry[2]]
        outcome, sched = await run_once(prefix_chooser(prefix))
        runs.append((prefix, outcome, sched))
        ch = sched.choices
        # depth-first: the deepest alternatives are explored first, so only the last few can ever be reached before the cap;
        # a run with thousands of choice points must not materialise millions of branches
        budget = max(64, 4 * (cap - len(runs)))
        new = []
        for d in range(len(ch) - 1, len(prefix) - 1, -1):
            for alt in range(ch[d][1] - 1, 0, -1):
                new.append((ch, d, alt))
            if len(new) >= budget:
                if d > len(prefix):
                    truncated = True
                break
        frontier.extend(reversed(new))
    exhaustive = exhaustive and not truncated
    if not exhaustive:
        # adversarial + random policies beyond the cap
        for tail in ("last",) + ("random",) * sample_tail:
            outcome, sched = await run_once(prefix_chooser([], tail, rng))
            runs.append((None, outcome, sched))
    return runs, exhaustive


class WarningTrap:
    """Collects 'coroutine ... was never awaited' RuntimeWarnings."""

    def __init__(self):
        self.seen = []
        self._old = None

    def __enter__(self):
        import warnings
        self._cm = warnings.catch_warnings(record=True)
        self._rec = self._cm.__enter__()
        warnings.simplefilter("always")
        return self

    def __exit__(self, *a):
        gc.collect()
        self.seen = [str(w.message) for w in self._rec if "never awaited" in str(w.message)]
        self._cm.__exit__(*a)
