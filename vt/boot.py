"""Bootstrap: make the *unmodified* tartiflette package of $VERIF_REPO importable.

The native libgraphqlparser is absent in this sandbox.  tartiflette loads it from
$LIBGRAPHQLPARSER_DIR, so we point that at our drop-in (shim/gqlshim.cpp, built into
build/shim/).  If the shim cannot be built we fall back to a stub .so plus the
pure-Python parser patched over `parser._parse_to_json_ast` (recorded as
PARSER_KIND == "python-fallback" in every evidence file).
"""
import fcntl
import itertools
import os
import subprocess
import sys

VERIF = os.path.dirname(os.path.dirname(os.path.abspath(__file__)))
REPO = os.environ.get("VERIF_REPO", "/repo")
BUILD = os.environ.get("VERIF_BUILD", os.path.join(VERIF, "build"))
PARSER_KIND = None

_STUB = """
#include <stddef.h>
struct GraphQLAstNode;
struct GraphQLAstNode *graphql_parse_string(const char *t, const char **e){static const char *m="stub";*e=m;return NULL;}
void graphql_error_free(const char *e){}
void graphql_node_free(struct GraphQLAstNode *n){}
const char *graphql_ast_to_json(const struct GraphQLAstNode *n){return "{}";}
"""


def _locked(path):
    os.makedirs(os.path.dirname(path), exist_ok=True)
    f = open(path, "w")
    fcntl.flock(f, fcntl.LOCK_EX)
    return f


def build_shim():
    """Returns directory holding libgraphqlparser.so (shim) or None."""
    if os.environ.get("VERIF_PARSER") == "py":
        return None
    script = os.path.join(VERIF, "shim", "build.sh")
    src = os.path.join(VERIF, "shim", "gqlshim.cpp")
    if not (os.path.exists(script) and os.path.exists(src)):
        return None
    out = os.path.join(BUILD, "shim", "libgraphqlparser.so")
    lock = _locked(os.path.join(BUILD, "shim.lock"))
    try:
        if not (os.path.exists(out) and os.path.getmtime(out) >= os.path.getmtime(src)):
            env = dict(os.environ, VERIF_BUILD=BUILD)
            r = subprocess.run(["bash", script], env=env, capture_output=True, text=True)   # bash: the script uses pipefail
            if r.returncode != 0 or not os.path.exists(out):
                sys.stderr.write("shim build failed:\n" + r.stdout + r.stderr)
                return None
    finally:
        lock.close()
    return os.path.dirname(out)


def build_stub():
    d = os.path.join(BUILD, "stub")
    out = os.path.join(d, "libgraphqlparser.so")
    lock = _locked(os.path.join(BUILD, "stub.lock"))
    try:
        if not os.path.exists(out):
            os.makedirs(d, exist_ok=True)
            c = os.path.join(d, "stub.c")
            with open(c, "w") as f:
                f.write(_STUB)
            subprocess.check_call(["gcc", "-shared", "-fPIC", "-o", out + ".tmp", c])
            os.replace(out + ".tmp", out)
    finally:
        lock.close()
    return d


def init():
    """Idempotent.  Must run before `import tartiflette`."""
    global PARSER_KIND
    if PARSER_KIND is not None:
        return PARSER_KIND
    sys.dont_write_bytecode = True
    if REPO not in sys.path:
        sys.path.insert(0, REPO)
    if VERIF not in sys.path:
        sys.path.insert(1, VERIF)
    d = build_shim()
    if d is not None:
        os.environ["LIBGRAPHQLPARSER_DIR"] = d
        PARSER_KIND = "shim"
    else:
        os.environ["LIBGRAPHQLPARSER_DIR"] = build_stub()
        from vt import pyparser
        from tartiflette.language.parsers.libgraphqlparser import parser as _p
        from tartiflette.types.exceptions.tartiflette import GraphQLSyntaxError

        def _parse_to_json_ast(query):
            try:
                return pyparser.parse_to_json(query)
            except pyparser.GQLSyntaxError as e:
                raise GraphQLSyntaxError(str(e))

        _p._parse_to_json_ast = _parse_to_json_ast
        PARSER_KIND = "python-fallback"
    import tartiflette  # noqa: F401
    assert os.path.realpath(tartiflette.__file__).startswith(os.path.realpath(REPO)), tartiflette.__file__
    return PARSER_KIND


_counter = itertools.count()


def fresh_schema_name(prefix="vt"):
    return "%s_%d_%d" % (prefix, os.getpid(), next(_counter))


def forget_schema(name):
    """Drop our own entry from the process-global registry to bound memory."""
    from tartiflette.schema.registry import SchemaRegistry
    try:
        SchemaRegistry._schemas.pop(name, None)
    except AttributeError:
        pass    # private storage renamed: keep the entry (costs memory only)


def schema_of(engine, name=None):
    """The baked schema object of a cooked engine (private attribute, with the public registry lookup as fallback)."""
    sch = getattr(engine, "_schema", None)
    if sch is None and name is not None:
        from tartiflette.schema.registry import SchemaRegistry
        sch = SchemaRegistry.find_schema(name)
    return sch
