"""Reference execution: a direct transcription of June-2018 spec section 6 over the
*models* (schema model, document model, world).  Never touches tartiflette objects."""
import math

from vt import smodel, values
from vt.smodel import BUILTIN_SCALARS, named_of
from vt.values import canon
from vt.world import ident_of, meta_of


class RefBug(Exception):
    """The reference refuses the case (generator/harness problem, never the engine's fault)."""


class Propagate(Exception):
    def __init__(self, errs):
        self.errs = errs


class RefError:
    __slots__ = ("path", "kind", "nodes", "nulled_at", "detail", "argnames", "sdl_default")

    def __init__(self, path, kind, nodes, detail=None):
        self.path, self.kind, self.nodes, self.detail = tuple(path), kind, nodes, detail
        self.nulled_at = None
        self.sdl_default = False      # the failing value was (also) taken from a default written in the SDL

    def __repr__(self):
        return "RefError(%s %s nulled_at=%s)" % (list(self.path), self.kind, self.nulled_at)


class RefResult:
    def nodes_for(self, path):
        """Merged field nodes responsible for an error path (trailing list indices belong to the field)."""
        p = list(path)
        while p and isinstance(p[-1], int):
            p.pop()
        return self.nodes_at.get(tuple(p))

    def __init__(self):
        self.data = None
        self.errors = []
        self.calls = []        # expected explicit resolver calls
        self.default_calls = []
        self.nodes_at = {}     # response path of a field (list indices of ancestors included) -> merged [FieldSel]
        self.request_error = None


def serialize_leaf(s, name, v):
    """Result coercion for well-typed values and clear garbage; ("ok", wire) | ("err",)"""
    if name == "Int":
        if isinstance(v, bool) or not isinstance(v, int):
            return ("err",)
        return ("ok", v) if values.INT_MIN <= v <= values.INT_MAX else ("err",)
    if name == "Float":
        if isinstance(v, bool) or not isinstance(v, (int, float)):
            return ("err",)
        f = float(v)
        return ("ok", f) if math.isfinite(f) else ("err",)
    if name == "String":
        if isinstance(v, str):
            return ("ok", v)
        raise RefBug("String result %r outside reference table" % (v,))
    if name == "Boolean":
        if isinstance(v, bool):
            return ("ok", v)
        return ("err",)
    if name == "ID":
        if isinstance(v, str):
            return ("ok", v)
        if isinstance(v, int) and not isinstance(v, bool):
            return ("ok", str(v))
        return ("err",)
    td = s.types[name]
    if td.kind == "ENUM":
        return ("ok", v) if isinstance(v, str) and v in td.values else ("err",)
    r = values.custom_scalar_output(td.impl, v)
    return ("ok", r[1]) if r[0] == "ok" else ("err",)


def input_fault_count(s, t, v, faults):
    """How many gated, faulted input fields hold a non-null value inside the coerced argument value v."""
    if v is None:
        return 0
    if t[0] == "NN":
        return input_fault_count(s, t[1], v, faults)
    if t[0] == "L":
        return sum(input_fault_count(s, t[1], x, faults) for x in (v if isinstance(v, list) else [v]))
    td = s.types.get(t[1])
    if td is None or td.kind != "INPUT_OBJECT" or not isinstance(v, dict):
        return 0
    n = 0
    for a in td.fields:
        if a.name in v and v[a.name] is not None:
            if "%s.%s" % (td.name, a.name) in faults and any(d[0] == "vtgate" for d in a.directives):
                n += 1
            n += input_fault_count(s, a.type, v[a.name], faults)
    return n


def input_fault_hit(s, t, v, faults):
    """Name of the first gated input field with a non-null value inside the coerced argument value v, if it is faulted."""
    if v is None:
        return None
    if t[0] == "NN":
        return input_fault_hit(s, t[1], v, faults)
    if t[0] == "L":
        for x in (v if isinstance(v, list) else [v]):
            r = input_fault_hit(s, t[1], x, faults)
            if r:
                return r
        return None
    td = s.types.get(t[1])
    if td is None or td.kind != "INPUT_OBJECT" or not isinstance(v, dict):
        return None
    for a in td.fields:
        if a.name in v and v[a.name] is not None:
            if "%s.%s" % (td.name, a.name) in faults and any(d[0] == "vtgate" for d in a.directives):
                return "%s.%s" % (td.name, a.name)
            r = input_fault_hit(s, a.type, v[a.name], faults)
            if r:
                return r
    return None


class RefExec:
    def __init__(self, world, doc, op, variables, root_value=None):
        self.w, self.s, self.doc, self.op = world, world.s, doc, op
        self.vars = variables
        self.root = root_value
        self.res = RefResult()

    # ------------------------------------------------------------ collect
    def dir_if(self, dirs, name):
        for n, args in dirs:
            if n == name:
                r = values.coerce_arguments(self.s, [_IF_ARG], args, self.vars)
                if r[0] != "ok":
                    raise RefBug("directive @%s(if:) not coercible: %r" % (name, r))
                return r[1]["if"]
        return None

    def included(self, sel):
        if self.dir_if(sel.directives, "skip") is True:
            return False
        if self.dir_if(sel.directives, "include") is False:
            return False
        return True

    def type_applies(self, obj_type, cond):
        if cond is None or cond == obj_type:
            return True
        td = self.s.types.get(cond)
        if td is None:
            raise RefBug("unknown type condition " + cond)
        return td.kind in ("INTERFACE", "UNION") and obj_type in self.s.possible_types(cond)

    def collect(self, obj_type, selset, grouped, visited):
        for sel in selset:
            if not self.included(sel):
                continue
            if sel.kind == "field":
                grouped.setdefault(sel.key, []).append(sel)
            elif sel.kind == "spread":
                if sel.name in visited:
                    continue
                visited.add(sel.name)
                fr = self.doc.frags.get(sel.name)
                if fr is None:
                    raise RefBug("undefined fragment")
                if not self.type_applies(obj_type, fr.typecond):
                    continue
                self.collect(obj_type, fr.selset, grouped, visited)
            else:
                if not self.type_applies(obj_type, sel.typecond):
                    continue
                self.collect(obj_type, sel.selset, grouped, visited)
        return grouped

    # ------------------------------------------------------------ errors
    def fail(self, path, kind, nodes, detail=None, sdl_default=False):
        e = RefError(path, kind, nodes, detail)
        e.sdl_default = sdl_default
        self.res.errors.append(e)
        raise Propagate([e])

    # ------------------------------------------------------------ execution
    def run(self):
        root_type = self.s.roots()[self.op.kind]
        try:
            self.res.data = self.exec_selset(root_type, self.root, [self.op.selset], [])
        except Propagate as p:
            for e in p.errs:
                e.nulled_at = ()
            self.res.data = None
        return self.res

    def exec_selset(self, obj_type, obj, selsets, path):
        grouped, visited = {}, set()
        for ss in selsets:
            self.collect(obj_type, ss, grouped, visited)
        out = {}
        pending = []
        for key, nodes in grouped.items():
            p = path + [key]
            self.res.nodes_at[tuple(p)] = nodes
            try:
                out[key] = self.exec_field(obj_type, obj, key, nodes, p)
            except Propagate as pr:
                pending.extend(pr.errs)
                out[key] = None
        if pending:
            raise Propagate(pending)
        return out

    def exec_field(self, obj_type, obj, key, nodes, path):
        fname = nodes[0].name
        if fname == "__typename":
            return obj_type
        if fname in ("__schema", "__type") and obj_type == self.s.query:
            if getattr(self.s, "non_introspectable", False):
                # `schema @nonIntrospectable`: the introspection field fails; __schema is non-null, __type nullable
                t = NN(N("__Schema")) if fname == "__schema" else N("__Type")
                return self.position(t, path, lambda: self.fail(path, "introspection-disabled", nodes))
            return self.introspect(nodes)
        f = self.s.types[obj_type].fields.get(fname)
        if f is None:
            raise RefBug("no field %s.%s" % (obj_type, fname))
        return self.position(f.type, path, lambda: self.field_value(obj_type, obj, f, nodes, path))

    def position(self, t, path, thunk):
        """A nullable position absorbs a propagating error; a non-null one lets it through."""
        try:
            return thunk()
        except Propagate as p:
            if t[0] == "NN":
                raise
            for e in p.errs:
                if e.nulled_at is None:
                    e.nulled_at = tuple(path)
            return None

    def field_value(self, T, obj, f, nodes, path):
        r = values.coerce_arguments(self.s, f.args, nodes[0].args, self.vars)
        if r[0] == "err":
            # the arguments fail on their own; hooks of other arguments / defaulted input fields may have run as well and
            # reported their refusal too (when SDL defaults can be involved the known finding about their location applies)
            dflt = False
            if self.w.input_faults:
                given = {n for n, _ in nodes[0].args}
                dflt = any(a.name not in given and a.default is not smodel.NODEF for a in f.args) or any(
                    x.default is not smodel.NODEF for key in self.w.input_faults
                    for x in (self.s.types[key.split(".")[0]].fields if key.split(".")[0] in self.s.types else []) if x.name == key.split(".")[1])
            self.fail(path, "args", nodes, r[1], sdl_default=dflt)
        args = r[1]
        for a in f.args:
            # a failing argument hook (@vtgate with an injected fault) fails the field, like any argument coercion error
            if (f.name, a.name) in self.w.arg_faults and a.name in args and any(d[0] == "vtgate" for d in a.directives):
                self.fail(path, "raise_tf" if getattr(self.w, "arg_fault_kind", "raise") == "raise_tf" else "args", nodes,
                          "arg:%s.%s" % (f.name, a.name))
        if self.w.input_faults:
            given = {n for n, _ in nodes[0].args}
            first, any_default = None, False
            for a in f.args:
                hit = a.name in args and input_fault_hit(self.s, a.type, args[a.name], self.w.input_faults)
                if not hit:
                    continue
                first = first or hit
                # was a refused value taken from a default of the SDL?  the argument itself omitted, or fewer refused values
                # once the faulted fields' own defaults are taken away
                if a.name not in given:
                    any_default = True
                    continue
                touched = []
                for key in self.w.input_faults:
                    tn, fn = key.split(".")
                    for x in (self.s.types[tn].fields if tn in self.s.types else []):
                        if x.name == fn and x.default is not smodel.NODEF:
                            touched.append((x, x.default))
                            x.default = smodel.NODEF
                try:
                    r2 = values.coerce_arguments(self.s, f.args, nodes[0].args, self.vars)
                    n2 = input_fault_count(self.s, a.type, r2[1].get(a.name), self.w.input_faults) if r2[0] != "err" else 0
                finally:
                    for x, dflt in touched:
                        x.default = dflt
                if n2 < input_fault_count(self.s, a.type, args[a.name], self.w.input_faults):
                    any_default = True
            if first:
                self.fail(path, "raise_tf" if getattr(self.w, "arg_fault_kind", "raise") == "raise_tf" else "args", nodes, "in:%s" % first,
                          sdl_default=any_default)
        pid = ident_of(obj)
        if f.resolver == "explicit":
            self.res.calls.append(("%s.%s" % (T, f.name), pid, canon(args)))
            out = self.w.field_outcome(T, f.name, pid, args if args else None)
        else:
            if obj is None or meta_of(obj) is None:
                out = ("value", None, None)
            else:
                out = self.w.default_outcome(T, f.name, pid)
                if out[0] == "absent":
                    out = ("value", None, out[2])
            if self.s.custom_default_resolver:
                self.res.default_calls.append(("default:%s.%s" % (T, f.name), pid, canon(args)))
        if out[0] in ("raise", "raise_tf", "raise_odd", "raise_shared"):
            self.fail(path, out[0], nodes, out[2])
        return self.complete(f.type, out[1], path, nodes, T, f)

    def complete(self, t, v, path, nodes, T, f):
        if t[0] == "NN":
            r = self.complete(t[1], v, path, nodes, T, f)
            if r is None:
                self.fail(path, "nonnull", nodes)
            return r
        if v is None:
            return None
        if isinstance(v, Exception):
            self.fail(path, "ret_exc", nodes)
        if t[0] == "L":
            if not isinstance(v, list):
                self.fail(path, "nonlist", nodes)
            out, pending = [], []
            for i, x in enumerate(v):
                ip = path + [i]
                try:
                    out.append(self.position(t[1], ip, lambda x=x, ip=ip: self.complete(t[1], x, ip, nodes, T, f)))
                except Propagate as p:
                    pending.extend(p.errs)
                    out.append(None)
            if pending:
                raise Propagate(pending)
            return out
        name = t[1]
        kind = self.s.kind(name)
        if kind in ("SCALAR", "ENUM"):
            r = serialize_leaf(self.s, name, v)
            if r[0] == "err":
                self.fail(path, "leaf", nodes)
            return r[1]
        if kind == "OBJECT":
            rt = name
        else:
            rt = self.w.effective_type_name(v, T, f, name)
            if rt is None or rt not in self.s.types or self.s.types[rt].kind != "OBJECT":
                self.fail(path, "runtime-type-unknown", nodes, rt)
            if rt not in self.s.possible_types(name):
                self.fail(path, "runtime-type-foreign", nodes, rt)
        return self.exec_selset(rt, v, [n.selset for n in nodes if n.selset is not None], path)

    def introspect(self, nodes):
        node = nodes[0]
        if node.name == "__schema":
            return {k.key: {kk.key: self.s.query for kk in k.selset} for k in node.selset}
        r = values.coerce_arguments(self.s, [_NAME_ARG], node.args, self.vars)
        tn = r[1]["name"]
        kind = None
        if tn in self.s.types or tn in BUILTIN_SCALARS:
            kind = self.s.kind(tn)
        if kind is None:
            return None
        return {k.key: (tn if k.name == "name" else kind) for k in node.selset}


from vt.smodel import Arg, N, NN  # noqa: E402

_IF_ARG = Arg("if", NN(N("Boolean")))
_NAME_ARG = Arg("name", NN(N("String")))


def reference(world, doc, op_name, raw_variables, root_value=None):
    """Full ExecuteRequest.  Returns RefResult; .request_error set when the request must be
    refused before execution (operation selection / variable coercion)."""
    res = RefResult()
    op = doc.op(op_name)
    if op is None:
        res.request_error = "operation"
        return res
    st, coerced, offenders = values.coerce_variables(world.s, op.vardefs, raw_variables or {})
    if st == "err":
        res.request_error = ("variables", offenders)
        return res
    ex = RefExec(world, doc, op, coerced, root_value)
    r = ex.run()
    r.var_status = st
    return r
