"""Shared plumbing for the execution properties (C01-C03, C06, C08, C09, C14, C15)."""
import asyncio
import json

from vt import docgen, harness, refexec, sched as S_, smodel, world as world_mod
from vt.values import canon


class Request:
    def __init__(self, doc, text, op, variables, wseed, use_root=True, pass_opname=True):
        self.doc, self.text, self.op, self.variables, self.wseed = doc, text, op, variables, wseed
        self.use_root, self.pass_opname = use_root, pass_opname

    @property
    def op_name(self):
        return self.op.name if self.pass_opname else None

    def describe(self):
        d = {"query": self.text, "operation_name": self.op_name, "variables": self.variables,
             "world_seed": self.wseed, "initial_value": self.use_root}
        if getattr(self, "world_opts", None):
            d["world_opts"] = self.world_opts
        return d


def gen_request(rng, s, dopts=None, doc=None):
    if doc is None:
        g = docgen.DocGen(rng, s, dopts)
        doc = g.gen_doc()
        docgen.print_doc(doc, rng, docgen.random_style(rng))
    op = rng.choice(doc.ops)
    variables = docgen.gen_variables(rng, s, op, doc.no_null_vars)
    pass_opname = not (len(doc.ops) == 1 and rng.random() < 0.5)
    return Request(doc, doc.text, op, variables, rng.randrange(10 ** 9), use_root=rng.random() < 0.75,
                   pass_opname=pass_opname)


def make_worlds(s, req, faults=None, sched=None, leafgen=None):
    ws = (world_mod.World(s, req.wseed, faults, None, leafgen),
          world_mod.World(s, req.wseed, faults, sched, leafgen))
    for w in ws:
        for k, v in (getattr(req, "world_opts", None) or {}).items():
            setattr(w, k, v)
    return ws


def run_reference(s, req, w_ref):
    root_t = s.roots()[req.op.kind]
    root = w_ref.root_object(root_t) if req.use_root else None
    return refexec.reference(w_ref, req.doc, req.op.name, req.variables, root)


class EngineStuck(Exception):
    """`execute` did not return although the event loop went quiescent (nothing ready, no timer): it never will.  Decided
    on the loop's state, not on wall-clock time.  `engine_verdict` tells Ctx.violation that this is an observation about
    the engine although no engine frame is on the traceback."""
    engine_verdict = True


async def to_completion(coro):
    """Await `coro` as a task; raise EngineStuck when it is unfinished while the loop has nothing left to run (the harness'
    resolvers never use timers or threads, so quiescent + unfinished = deadlock)."""
    loop = asyncio.get_running_loop()
    task = asyncio.ensure_future(coro)
    idle = 0
    while not task.done():
        await asyncio.sleep(0)
        if task.done():
            break
        if loop._ready or S_.timer_due_soon(loop):
            idle = 0
            continue
        idle += 1
        if idle > 5 and S_.quiescent_for_good(task):
            task.cancel()
            try:
                await task
            except BaseException:  # noqa
                pass
            raise EngineStuck("execute never returns: request unfinished, event loop quiescent")
    return task.result()


async def run_engine(engine, s, req, w_eng, ctx_extra=None):
    root_t = s.roots()[req.op.kind]
    root = w_eng.root_object(root_t) if req.use_root else None
    context = {"world": w_eng}
    if ctx_extra:
        context.update(ctx_extra)
    # no variables at all may be spelled {} or None (the `variables` argument left out): the same request
    variables = None if req.variables == {} and req.wseed % 2 else req.variables
    resp = await to_completion(engine.execute(req.text, operation_name=req.op_name, context=context,
                                              variables=variables, initial_value=root))
    return resp, context


def jdump(x):
    return json.dumps(x, ensure_ascii=False, allow_nan=True, default=lambda o: "<%s>" % type(o).__name__)


def first_diff(a, b, path=()):
    """First structural difference between two JSON-like values (type- and order-sensitive)."""
    if type(a) is int and type(b) is float and abs(a) < 2 ** 1000 and float(a) == b:
        # a Float position (only there does the reference hold a float) answered with the Python int whose nearest double
        # is that float: the same JSON number; no statement fixes the host-language representation of a Float result
        return None
    if type(a) is not type(b):
        return path, a, b
    if isinstance(a, dict):
        ka, kb = list(a), list(b)
        if ka != kb:
            return path + ("<keys>",), ka, kb
        for k in ka:
            d = first_diff(a[k], b[k], path + (k,))
            if d:
                return d
        return None
    if isinstance(a, list):
        if len(a) != len(b):
            return path + ("<len>",), len(a), len(b)
        for i, (x, y) in enumerate(zip(a, b)):
            d = first_diff(x, y, path + (i,))
            if d:
                return d
        return None
    if a != b and not (a != a and b != b):
        return path, a, b
    return None


def doc_features(doc):
    feats = set()

    def walk(selset):
        for sel in selset:
            if sel.kind == "field":
                if sel.alias:
                    feats.add("alias")
                if sel.args:
                    feats.add("args")
                if sel.selset:
                    walk(sel.selset)
            elif sel.kind == "inline":
                feats.add("inline" if sel.typecond else "inline-notc")
                walk(sel.selset)
            else:
                feats.add("spread")
            for d, _ in sel.directives:
                feats.add(d)
    for op in doc.ops:
        walk(op.selset)
        if op.vardefs:
            feats.add("vars")
    for fr in doc.frags.values():
        walk(fr.selset)
    if len(doc.ops) > 1:
        feats.add("multi-op")
    return feats


def check_envelope(resp):
    """Minimal response-shape check shared by the execution properties."""
    if not isinstance(resp, dict) or "data" not in resp:
        return "response is not a dict with data: %r" % (resp,)
    extra = set(resp) - {"data", "errors"}
    if extra:
        return "unexpected response keys %s" % sorted(extra)
    if "errors" in resp and (not isinstance(resp["errors"], list) or not resp["errors"]):
        return "errors present but empty or not a list"
    return None


def refused(resp, world=None):
    """A request answered as a whole without running anything (syntax, validation, operation selection, variables, or a
    failure that nulls the root before any resolver ran), decided on OBSERVATIONS only: data null, a non-empty error list
    and -- when a world is given -- no resolver or directive hook was called.  Returns None or (tag-if-any, first message);
    neither the wording nor the extensions of an error decide.  Callers that must tell a refusal from a legitimate
    'data: null' compare with the reference's data."""
    if not isinstance(resp, dict) or resp.get("data") is not None:
        return None
    errs = resp.get("errors") or []
    if not errs or not all(isinstance(e, dict) for e in errs):
        return None
    if world is not None and (world.calls or world.dir_calls):
        return None
    ext = errs[0].get("extensions")
    return ((ext.get("tag") if isinstance(ext, dict) else None), errs[0].get("message"))


def data_at(data, path):
    cur = data
    for p in path:
        if cur is None:
            return ("hidden",)
        try:
            cur = cur[p]
        except (KeyError, IndexError, TypeError):
            return ("missing",)
    return ("value", cur)


def check_errors(ctx, req, resp, ref, case, prop_name="errors"):
    """C02 error-accounting oracle.  ref: RefResult computed under the same faults."""
    errs = resp.get("errors") or []
    problems = []
    possible = {}
    for e in ref.errors:
        possible.setdefault(e.path, []).append(e)
    # soundness: each reported error corresponds to a failure the reference also found
    for e in errs:
        if not isinstance(e, dict) or not isinstance(e.get("message"), str):
            problems.append(("error-entry-malformed", repr(e)[:200]))
            continue
        p = e.get("path")
        if not isinstance(p, list):
            problems.append(("error-without-path", jdump(e)[:300]))
            continue
        if tuple(p) not in possible:
            problems.append(("error-for-no-failure", "path %s not among failing paths %s" % (p, sorted(map(list, possible), key=str)[:8])))
            continue
        # location inside one of the merged field nodes at that path
        nodes = ref.nodes_for(p)
        locs = e.get("locations")
        if not isinstance(locs, list) or not locs:
            problems.append(("error-without-location", jdump(e)[:300]))
        elif nodes:
            for loc in locs:
                if not (isinstance(loc, dict) and any(docgen.in_span(n.span, loc.get("line"), loc.get("column")) for n in nodes)):
                    tag = "[sdl-default]" if any(getattr(c, "sdl_default", False) for c in possible[tuple(p)]) else ""
                    problems.append(("location-outside-field" + tag, "%s not inside %s" % (loc, [n.span for n in nodes])))
        cands = possible[tuple(p)]
        if len(cands) == 1 and cands[0].kind == "raise_tf":
            r = cands[0]
            if e.get("message") != "user message at %s" % r.detail or \
                    e.get("extensions") != {"code": "E_INJECTED", "key": r.detail}:
                problems.append(("user-error-mangled", jdump(e)[:300]))
    # completeness: every visible nulled position is explained
    reported = {tuple(e["path"]) for e in errs if isinstance(e, dict) and isinstance(e.get("path"), list)}
    by_pos = {}
    for e in ref.errors:
        by_pos.setdefault(e.nulled_at, []).append(e)
    for pos, es in by_pos.items():
        if pos is None:
            continue
        vis = data_at(ref.data, pos) if pos else ("value", ref.data)
        if vis[0] != "value":
            continue
        if not any(e.path in reported for e in es):
            problems.append(("null-unexplained", "position %s nulled by %s but no error with such a path; reported %s"
                             % (list(pos), [list(e.path) for e in es][:5], sorted(map(list, reported), key=str)[:8])))
    return problems


async def new_bundle(rng, sopts=None, **engine_opts):
    s = smodel.gen_schema(rng, sopts)
    sdl = None
    if rng.random() < 0.35:
        # the order of definitions in an SDL document carries no meaning: objects before the interfaces they implement,
        # unions before their members, the schema definition first, ...
        chunks = smodel.sdl_chunks(s)
        rng.shuffle(chunks)
        sdl = "\n\n".join(chunks) + "\n"
    b = harness.Bundle(s, sdl=sdl, **engine_opts)
    await b.build()
    return s, b
