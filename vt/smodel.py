"""Schema model (plain data), random generator and SDL printer.

The model is the ground truth for the reference algorithms; the SDL text handed to
tartiflette is *only* produced by `print_sdl` from a model.
Type references are tuples: ("N", name) | ("L", inner) | ("NN", inner).
Values (defaults, literals) are tuples, see vt.values.
"""
import random

BUILTIN_SCALARS = ("Int", "Float", "String", "Boolean", "ID")
NODEF = ("nodef",)


def N(name):
    return ("N", name)


def L(t):
    return ("L", t)


def NN(t):
    assert t[0] != "NN"
    return ("NN", t)


def tstr(t):
    if t[0] == "N":
        return t[1]
    if t[0] == "L":
        return "[" + tstr(t[1]) + "]"
    return tstr(t[1]) + "!"


def named_of(t):
    while t[0] != "N":
        t = t[1]
    return t[1]


def is_nn(t):
    return t[0] == "NN"


def nullable(t):
    return t[1] if t[0] == "NN" else t


class Arg:
    def __init__(self, name, type, default=NODEF, directives=None, description=None):
        self.name, self.type, self.default = name, type, default
        self.directives = directives or []
        self.description = description


class Field:
    def __init__(self, name, type, args=None, resolver="default", deprecated=None,
                 directives=None, description=None):
        self.name, self.type, self.args = name, type, args or []
        self.resolver = resolver          # "explicit" | "default"
        self.field_type_resolver = False  # @Resolver(type_resolver=...)
        self.parent_concurrently = True   # @Resolver(parent_concurrently=)
        self.list_concurrently = None
        self.deprecated = deprecated      # None | True | "reason"
        self.directives = directives or []  # [(name, [(arg, value)])] besides deprecated
        self.description = description
        self.non_introspectable = False

    def arg(self, name):
        for a in self.args:
            if a.name == name:
                return a
        return None


class TypeDef:
    kind = None

    def __init__(self, name):
        self.name = name
        self.directives = []
        self.description = None


class ScalarT(TypeDef):
    kind = "SCALAR"

    def __init__(self, name, impl="tag"):
        super().__init__(name)
        self.impl = impl


class EnumT(TypeDef):
    kind = "ENUM"

    def __init__(self, name, values):
        super().__init__(name)
        self.values = values          # list of names
        self.deprecated = {}          # value -> True | reason
        self.value_directives = {}    # value -> [(name,args)]


class InputT(TypeDef):
    kind = "INPUT_OBJECT"

    def __init__(self, name, fields):
        super().__init__(name)
        self.fields = fields          # list[Arg]

    def field(self, name):
        for f in self.fields:
            if f.name == name:
                return f
        return None


class ObjectT(TypeDef):
    kind = "OBJECT"

    def __init__(self, name, fields, interfaces=None):
        super().__init__(name)
        self.fields = fields          # dict name -> Field (ordered)
        self.interfaces = interfaces or []
        self.style = "dict"           # "dict" | "attr" | "class"


class InterfaceT(TypeDef):
    kind = "INTERFACE"

    def __init__(self, name, fields):
        super().__init__(name)
        self.fields = fields
        self.type_resolver = False


class UnionT(TypeDef):
    kind = "UNION"

    def __init__(self, name, members):
        super().__init__(name)
        self.members = members
        self.type_resolver = False


class DirectiveDef:
    def __init__(self, name, locations, args=None, description=None):
        self.name, self.locations, self.args = name, locations, args or []
        self.description = description


class Schema:
    def __init__(self):
        self.types = {}               # name -> TypeDef (declaration order)
        self.directives = {}          # custom directive definitions
        self.query = "Query"
        self.mutation = None
        self.subscription = None
        self.explicit_schema_def = False
        self.schema_directives = []   # [(name, args)] applied to the schema definition
        self.custom_default_resolver = False
        self.custom_default_type_resolver = False

    def add(self, t):
        assert t.name not in self.types, t.name
        self.types[t.name] = t
        return t

    def get(self, name):
        return self.types.get(name)

    def kind(self, name):
        if name in BUILTIN_SCALARS:
            return "SCALAR"
        return self.types[name].kind

    def is_leaf(self, name):
        return self.kind(name) in ("SCALAR", "ENUM")

    def is_composite(self, name):
        return self.kind(name) in ("OBJECT", "INTERFACE", "UNION")

    def is_abstract(self, name):
        return self.kind(name) in ("INTERFACE", "UNION")

    def is_input(self, name):
        return self.kind(name) in ("SCALAR", "ENUM", "INPUT_OBJECT")

    def objects(self):
        return [t for t in self.types.values() if t.kind == "OBJECT"]

    def possible_types(self, name):
        """Object type names that can be the runtime type of `name`."""
        t = self.types[name]
        if t.kind == "OBJECT":
            return [name]
        if t.kind == "UNION":
            return list(t.members)
        if t.kind == "INTERFACE":
            return [o.name for o in self.objects() if name in o.interfaces]
        return []

    def fields_of(self, name):
        t = self.types[name]
        if t.kind in ("OBJECT", "INTERFACE"):
            return t.fields
        return {}

    def roots(self):
        r = {"query": self.query}
        if self.mutation:
            r["mutation"] = self.mutation
        if self.subscription:
            r["subscription"] = self.subscription
        return r


# --------------------------------------------------------------------------- SDL printer

def esc_string(s):
    out = []
    for ch in s:
        if ch == '"':
            out.append('\\"')
        elif ch == "\\":
            out.append("\\\\")
        elif ch == "\n":
            out.append("\\n")
        elif ch == "\r":
            out.append("\\r")
        elif ch == "\t":
            out.append("\\t")
        elif ord(ch) < 0x20:
            out.append("\\u%04x" % ord(ch))
        else:
            out.append(ch)
    return '"' + "".join(out) + '"'


def print_value(v):
    k = v[0]
    if k == "int":
        return str(v[1])
    if k == "float":
        return v[1]  # kept as source text
    if k == "string":
        return esc_string(v[1])
    if k == "bool":
        return "true" if v[1] else "false"
    if k == "null":
        return "null"
    if k == "enum":
        return v[1]
    if k == "var":
        return "$" + v[1]
    if k == "list":
        return "[" + ", ".join(print_value(x) for x in v[1]) + "]"
    if k == "object":
        return "{" + ", ".join("%s: %s" % (n, print_value(x)) for n, x in v[1]) + "}"
    raise ValueError(v)


def print_directives(dirs):
    out = ""
    for name, args in dirs:
        out += " @" + name
        if args:
            out += "(" + ", ".join("%s: %s" % (a, print_value(v)) for a, v in args) + ")"
    return out


def _dep(dep):
    if dep is None:
        return ""
    if dep is True:
        return " @deprecated"
    return " @deprecated(reason: %s)" % esc_string(dep)


def _desc(d, indent=""):
    if d is None:
        return ""
    # every other eligible description is written as a block string (value unchanged by the block-string algorithm)
    if d and d == d.strip() and "\n" not in d and "\r" not in d and '"""' not in d and not d.endswith('"') \
            and not d.endswith("\\") and len(d) % 2 == 0:
        return indent + '"""' + d + '"""' + "\n"
    return indent + esc_string(d) + "\n"


def print_arg(a):
    s = "%s: %s" % (a.name, tstr(a.type))
    if a.default is not NODEF:
        s += " = " + print_value(a.default)
    s += print_directives(a.directives)
    return s


def print_field(f, indent="  "):
    s = _desc(f.description, indent) + indent + f.name
    if f.args:
        s += "(" + ", ".join((esc_string(a.description) + " " if a.description is not None else "") + print_arg(a)
                             for a in f.args) + ")"
    s += ": " + tstr(f.type) + _dep(f.deprecated)
    if f.non_introspectable:
        s += " @nonIntrospectable"
    s += print_directives(f.directives)
    return s


def print_type(t, fields=None, extend=False, members=None, values=None, interfaces=None,
               with_directives=True):
    """Print one definition (or extension carrying the given subset)."""
    kw = "extend " if extend else ""
    dirs = print_directives(t.directives) if with_directives else ""
    head = "" if extend else _desc(t.description)
    if t.kind == "SCALAR":
        return head + "%sscalar %s%s" % (kw, t.name, dirs)
    if t.kind == "ENUM":
        vals = t.values if values is None else values
        body = "\n".join("  " + v + _dep(t.deprecated.get(v)) + print_directives(t.value_directives.get(v, []))
                         for v in vals)
        return head + "%senum %s%s {\n%s\n}" % (kw, t.name, dirs, body)
    if t.kind == "INPUT_OBJECT":
        fl = t.fields if fields is None else fields
        body = "\n".join(_desc(a.description, "  ") + "  " + print_arg(a) for a in fl)
        return head + "%sinput %s%s {\n%s\n}" % (kw, t.name, dirs, body)
    if t.kind == "UNION":
        mem = t.members if members is None else members
        return head + "%sunion %s%s = %s" % (kw, t.name, dirs, " | ".join(mem))
    fl = list(t.fields.values()) if fields is None else fields
    body = "\n".join(print_field(f) for f in fl)
    if t.kind == "INTERFACE":
        return head + "%sinterface %s%s {\n%s\n}" % (kw, t.name, dirs, body)
    ifs = t.interfaces if interfaces is None else interfaces
    impl = (" implements " + " & ".join(ifs)) if ifs else ""
    if not fl:
        return head + "%stype %s%s%s" % (kw, t.name, impl, dirs)
    return head + "%stype %s%s%s {\n%s\n}" % (kw, t.name, impl, dirs, body)


def print_directive_def(d):
    s = _desc(d.description) + "directive @" + d.name
    if d.args:
        s += "(" + ", ".join((esc_string(a.description) + " " if a.description is not None else "") + print_arg(a)
                             for a in d.args) + ")"
    return s + " on " + " | ".join(d.locations)


def supports_hetero(s):
    """Some field returns a LIST of an interface with >= 2 implementers and a composite field: merged field nodes can differ
    from list item to list item (docgen._hetero_merge)."""
    for t in s.types.values():
        if t.kind not in ("OBJECT", "INTERFACE"):
            continue
        for f in t.fields.values():
            tn = named_of(f.type)
            if "L" in str(f.type) and s.kind(tn) == "INTERFACE" and len(s.possible_types(tn)) >= 2 \
                    and any(s.is_composite(named_of(g.type)) for g in s.types[tn].fields.values()):
                return True
    return False


def print_schema_def(s):
    parts = ["  query: " + s.query]
    if s.mutation:
        parts.append("  mutation: " + s.mutation)
    if s.subscription:
        parts.append("  subscription: " + s.subscription)
    ni = " @nonIntrospectable" if getattr(s, "non_introspectable", False) else ""
    return "schema" + print_directives(getattr(s, "schema_directives", [])) + ni + " {\n" + "\n".join(parts) + "\n}"


def needs_schema_def(s):
    return (s.explicit_schema_def or getattr(s, "schema_directives", []) or getattr(s, "non_introspectable", False)
            or s.query != "Query"
            or (s.mutation and s.mutation != "Mutation")
            or (s.subscription and s.subscription != "Subscription"))


def sdl_chunks(s):
    """List of top-level definition texts (no extensions)."""
    out = [print_directive_def(d) for d in s.directives.values()]
    out += [print_type(t) for t in s.types.values()]
    if needs_schema_def(s):
        out.append(print_schema_def(s))
    return out


def print_sdl(s):
    return "\n\n".join(sdl_chunks(s)) + "\n"


# --------------------------------------------------------------------------- generator

TYPE_NAMES = ["Dog", "Cat", "Node", "Item", "User", "Type", "On", "Input", "Pet", "Query_", "A", "a",
              "A_", "Fragment", "Schema", "T1", "Edge", "Page", "Post", "Tag", "Enum", "Union", "Field"]
FIELD_NAMES = ["id", "name", "a", "A", "a_", "type", "query", "on", "input", "fragment", "b", "c",
               "x1", "kind", "title", "owner", "friend", "pets", "node", "edges", "count_", "mutation",
               "subscription", "schema", "enum", "union", "implements", "extend", "directive", "scalar",
               "interface", "value", "_x", "list", "tags"]
DICT_ATTRS = set(dir(dict)) | set(dir(object))
ENUM_VALUES = ["RED", "GREEN", "BLUE", "FIELD", "ENUM", "QUERY", "on", "type", "a", "A", "OBJECT",
               "SCALAR", "input", "x_1", "SCHEMA", "True", "None", "False"]
ARG_NAMES = ["x", "y", "id", "if", "first", "type", "on", "input", "a", "A", "filter"]
INPUT_FIELD_NAMES = ["s", "i", "f", "b", "e", "n", "l", "type", "on", "a", "A", "nested", "id"]


def pick_unique(rng, pool, used, prefix):
    c = [x for x in pool if x not in used]
    if c:
        n = rng.choice(c)
    else:
        i = len(used)
        while "%s%d" % (prefix, i) in used:
            i += 1
        n = "%s%d" % (prefix, i)
    used.add(n)
    return n


class GenOpts:
    def __init__(self, **kw):
        self.n_objects = (2, 5)
        self.n_interfaces = (0, 2)
        self.n_unions = (0, 2)
        self.n_enums = (1, 2)
        self.n_inputs = (0, 2)
        self.n_scalars = (0, 1)
        self.fields = (2, 5)
        self.max_wrap = 3
        self.p_args = 0.35
        self.p_mutation = 0.3
        self.shared_root = False       # query and mutation share one root object type
        self.p_subscription = 0.0
        self.p_explicit = 0.55
        self.p_nonnull = 0.3
        self.rename_roots = 0.15
        self.p_gate = 0.0                 # @vtgate on arguments / fields (scheduler suspension points)
        self.p_covariant = 0.15           # implementer's field type is a subtype of the interface's
        self.p_non_introspectable = 0.0   # `schema @nonIntrospectable`: __schema / __type are refused as field errors
        self.p_schema_pass = 0.0          # @vtpass on the schema: pass-through on_schema_execution / on_schema_subscription
        self.__dict__.update(kw)


def wrap_type(rng, base, max_wrap, p_nonnull, allow_list=True):
    t = N(base)
    if rng.random() < p_nonnull:
        t = NN(t)
    depth = 0
    while allow_list and depth < max_wrap - 1 and rng.random() < (0.3 if depth == 0 else 0.25):
        t = L(t)
        if rng.random() < p_nonnull:
            t = NN(t)
        depth += 1
    return t


def gen_default_for(rng, s, t, depth=0):
    """A valid constant literal (model value) for input type t, or null if nullable."""
    from vt import values
    return values.gen_literal(rng, s, t, variables=None, depth=depth)


def gen_schema(rng, opts=None):
    o = opts or GenOpts()
    s = Schema()
    used = set(BUILTIN_SCALARS) | {"Query", "Mutation", "Subscription", "Date", "Time", "DateTime"}
    ri = rng.randint

    scalars = []
    for _ in range(ri(*o.n_scalars)):
        n = pick_unique(rng, ["Tag", "Even"], used, "Sc")
        scalars.append(s.add(ScalarT(n, impl="even" if n == "Even" else "tag")).name)
    enums = []
    for _ in range(ri(*o.n_enums)):
        n = pick_unique(rng, ["Color", "Kind", "Enum", "E"], used, "En")
        vals = rng.sample(ENUM_VALUES, ri(1, 4))
        enums.append(s.add(EnumT(n, vals)).name)
    leaf_out = list(BUILTIN_SCALARS) + scalars + enums

    # input objects (may be recursive through nullable fields)
    inputs = []
    input_names = [pick_unique(rng, ["In", "Filter", "Input_", "Point"], used, "In") for _ in range(ri(*o.n_inputs))]
    for n in input_names:
        s.add(InputT(n, []))
        inputs.append(n)
    input_leaf = list(BUILTIN_SCALARS) + scalars + enums
    for idx, n in enumerate(input_names):
        it = s.types[n]
        fu = set()
        for _ in range(ri(1, 4)):
            fn = pick_unique(rng, INPUT_FIELD_NAMES, fu, "f")
            if rng.random() < 0.25 and input_names:
                base = rng.choice(input_names)
                # recursion only through nullable, default-less positions
                ft = wrap_type(rng, base, 2, 0.0)
                if ft[0] == "L" and rng.random() < 0.3:
                    ft = L(NN(N(base)))
                it.fields.append(Arg(fn, ft))
            else:
                base = rng.choice(input_leaf)
                ft = wrap_type(rng, base, o.max_wrap, o.p_nonnull)
                a = Arg(fn, ft)
                it.fields.append(a)
    # defaults for input fields after all input types exist
    for n in input_names:
        for a in s.types[n].fields:
            if named_of(a.type) not in input_names and rng.random() < 0.3:
                a.default = gen_default_for(rng, s, a.type)
    input_any = input_leaf + inputs

    interfaces = []
    for _ in range(ri(*o.n_interfaces)):
        n = pick_unique(rng, TYPE_NAMES, used, "If")
        interfaces.append(s.add(InterfaceT(n, {})).name)
    objects = []
    for _ in range(ri(*o.n_objects)):
        n = pick_unique(rng, TYPE_NAMES, used, "Ob")
        objects.append(s.add(ObjectT(n, {})).name)
    unions = []
    for _ in range(ri(*o.n_unions)):
        n = pick_unique(rng, ["SearchResult", "U", "Union_", "Any"], used, "Un")
        mem = rng.sample(objects, ri(1, min(3, len(objects))))
        unions.append(s.add(UnionT(n, mem)).name)
    composite = objects + interfaces + unions

    def gen_args(fu_names):
        args = []
        if rng.random() < o.p_args:
            au = set()
            for _ in range(ri(1, 3)):
                an = pick_unique(rng, ARG_NAMES, au, "arg")
                base = rng.choice(input_any)
                at = wrap_type(rng, base, o.max_wrap, o.p_nonnull)
                a = Arg(an, at)
                if rng.random() < 0.3:
                    a.default = gen_default_for(rng, s, at)
                args.append(a)
        return args

    def gen_field(fu, leaf_bias=0.6):
        fn = pick_unique(rng, FIELD_NAMES, fu, "f")
        base = rng.choice(leaf_out) if rng.random() < leaf_bias else rng.choice(composite)
        ft = wrap_type(rng, base, o.max_wrap, o.p_nonnull)
        f = Field(fn, ft, gen_args(fu))
        return f

    # interface fields first
    for n in interfaces:
        it = s.types[n]
        fu = set()
        for _ in range(ri(2, 4)):
            f = gen_field(fu, 0.5)
            it.fields[f.name] = f
    # objects: implement 0-2 interfaces, copy their fields (same types/args), add own
    covariant = []
    for n in objects:
        ot = s.types[n]
        fu = set()
        if interfaces:
            for iname in rng.sample(interfaces, ri(0, min(2, len(interfaces)))):
                ok = True
                for f in s.types[iname].fields.values():
                    if f.name in ot.fields:
                        g = ot.fields[f.name]
                        if tstr(g.type) != tstr(f.type) or [print_arg(a) for a in g.args] != [print_arg(a) for a in f.args]:
                            ok = False
                if not ok:
                    continue
                ot.interfaces.append(iname)
                for f in s.types[iname].fields.values():
                    if f.name not in ot.fields:
                        g = Field(f.name, f.type, [Arg(a.name, a.type, a.default) for a in f.args])
                        ot.fields[g.name] = g
                        fu.add(g.name)
                        covariant.append(g)
        for _ in range(ri(*o.fields)):
            f = gen_field(fu)
            ot.fields[f.name] = f
    # make sure every interface has at least one implementer
    for iname in interfaces:
        if not s.possible_types(iname):
            cands = [n for n in objects
                     if not any(fn in s.types[n].fields for fn in s.types[iname].fields)]
            tgt = s.types[rng.choice(cands)] if cands else s.add(ObjectT(pick_unique(rng, TYPE_NAMES, used, "Ob"), {}))
            if tgt.name not in objects:
                objects.append(tgt.name)
            tgt.interfaces.append(iname)
            for f in s.types[iname].fields.values():
                tgt.fields[f.name] = Field(f.name, f.type, [Arg(a.name, a.type, a.default) for a in f.args])

    # covariance: an implementer may narrow a field type (non-null of it, or a possible type of an abstract one)
    def narrow(t):
        inner = t[1] if t[0] == "NN" else t
        if inner[0] == "L":
            r = L(narrow(inner[1]))
        else:
            td = s.types.get(inner[1])
            poss = s.possible_types(inner[1]) if td is not None and td.kind in ("INTERFACE", "UNION") else []
            r = N(rng.choice(sorted(poss))) if poss and rng.random() < 0.6 else inner
        return NN(r) if (t[0] == "NN" or rng.random() < 0.4) else r
    for g in covariant:
        if rng.random() < o.p_covariant:
            g.type = narrow(g.type)

    # roots
    if rng.random() < o.rename_roots:
        s.query = pick_unique(rng, ["RootQuery", "Q", "MyQuery"], used, "Rq")
    q = s.add(ObjectT(s.query, {}))
    fu = set()
    for _ in range(ri(3, 6)):
        f = gen_field(fu, 0.35)
        q.fields[f.name] = f
    if rng.random() < o.p_mutation:
        s.mutation = "Mutation" if rng.random() > o.rename_roots else pick_unique(rng, ["RootMutation", "M"], used, "Rm")
        if o.shared_root:      # decided by the caller without a draw: the random stream of every other case stays what it was
            # `schema { query: R mutation: R }`: one object type serves both operations (accepted by the engine);
            # what makes an operation a mutation is the operation keyword, not the type it starts from
            s.mutation, m = s.query, q
        else:
            m = s.add(ObjectT(s.mutation, {}))
            fu = set()
        for _ in range(ri(2, 5)):
            f = gen_field(fu, 0.4)
            m.fields[f.name] = f
    if rng.random() < o.p_subscription:
        s.subscription = "Subscription" if rng.random() > o.rename_roots else pick_unique(rng, ["RootSub", "S"], used, "Rs")
        m = s.add(ObjectT(s.subscription, {}))
        fu = set()
        for _ in range(ri(1, 4)):
            f = gen_field(fu, 0.4)
            m.fields[f.name] = f
    if rng.random() < 0.1:
        s.explicit_schema_def = True
    if o.p_non_introspectable and rng.random() < o.p_non_introspectable:
        s.non_introspectable = True
    if o.p_schema_pass and rng.random() < o.p_schema_pass:
        # a schema-level directive whose hooks only forward the request (positionally or by keyword): transparent
        d = s.directives["vtpass"] = DirectiveDef("vtpass", ["SCHEMA"])
        d.impl = "pass:" + rng.choice(["positional", "keyword"])
        s.schema_directives = [("vtpass", [])]

    # resolver / materialisation annotations
    for t in s.types.values():
        if t.kind == "OBJECT":
            names = set(t.fields)
            styles = ["attr", "class"]
            if not (names & DICT_ATTRS):
                styles += ["dict", "dict"]
            t.style = rng.choice(styles)
            for f in t.fields.values():
                is_root = t.name in (s.query, s.mutation, s.subscription)
                if f.args or rng.random() < o.p_explicit or (is_root and rng.random() < 0.75):
                    f.resolver = "explicit"
                    if s.is_abstract(named_of(f.type)) and rng.random() < 0.4:
                        f.field_type_resolver = True
                    r = rng.random()
                    if r < 0.15:
                        f.parent_concurrently = False
                    elif r < 0.3:
                        f.parent_concurrently = None
                    f.list_concurrently = rng.choice([None, None, True, False])
        elif t.kind in ("INTERFACE", "UNION"):
            t.type_resolver = rng.random() < 0.5
    s.custom_default_resolver = rng.random() < 0.2
    s.custom_default_type_resolver = rng.random() < 0.2
    if o.p_gate:
        s.directives["vtgate"] = DirectiveDef("vtgate", ["FIELD_DEFINITION", "ARGUMENT_DEFINITION", "INPUT_FIELD_DEFINITION"],
                                              [Arg("k", N("String"))])
        for t in s.types.values():
            if t.kind == "INPUT_OBJECT":
                for a in t.fields:
                    if rng.random() < o.p_gate * 2:
                        # the hook is handed the ARGUMENT's definition node, not the input field's: the field identifies
                        # itself through the directive argument
                        a.directives.append(("vtgate", [("k", ("string", "%s.%s" % (t.name, a.name)))]))
            if t.kind == "OBJECT":
                for f in t.fields.values():
                    if rng.random() < o.p_gate:
                        f.directives.append(("vtgate", []))
                    for a in f.args:
                        if rng.random() < o.p_gate * 2:
                            a.directives.append(("vtgate", []))
    return s
