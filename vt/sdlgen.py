"""Full-featured SDL models for C11/C12/C17: decorations on top of smodel.gen_schema, extension
splitting, the four ways of supplying the SDL, and the expected introspection result."""
import json
import os
import shutil

from vt import pyparser, smodel, values
from vt.smodel import (BUILTIN_SCALARS, NODEF, Arg, DirectiveDef, esc_string, named_of, print_arg,
                       print_directive_def, print_directives, print_field, print_schema_def, print_type, tstr)

TS_LOCATIONS = ["SCHEMA", "SCALAR", "OBJECT", "FIELD_DEFINITION", "ARGUMENT_DEFINITION", "INTERFACE", "UNION", "ENUM",
                "ENUM_VALUE", "INPUT_OBJECT", "INPUT_FIELD_DEFINITION"]
EX_LOCATIONS = ["QUERY", "MUTATION", "SUBSCRIPTION", "FIELD", "FRAGMENT_DEFINITION", "FRAGMENT_SPREAD", "INLINE_FRAGMENT"]
DESCS = ["plain", "with \"quotes\"", "back\\slash", "multi\nline", "é unicode 日本", "", "  spaced  ", "#hash", "tab\there",
         "C:\\new\\table", "regex \\b", "ends with \\"]
REASONS = ["use other", "a \"quoted\" reason", "", "é", "use \\newField"]
BUILTIN_DIRECTIVES = {
    "deprecated": (["FIELD_DEFINITION", "ENUM_VALUE"], [("reason", "String", ("string", "No longer supported"))]),
    "nonIntrospectable": (["FIELD_DEFINITION", "SCHEMA"], []),
    "skip": (["FIELD", "FRAGMENT_SPREAD", "INLINE_FRAGMENT"], [("if", "Boolean!", None)]),
    "include": (["FIELD", "FRAGMENT_SPREAD", "INLINE_FRAGMENT"], [("if", "Boolean!", None)]),
}
BUILTIN_TYPES = set(BUILTIN_SCALARS) | {"Date", "Time", "DateTime"}
META_TYPES = {"__Schema", "__Type", "__Field", "__InputValue", "__EnumValue", "__Directive", "__TypeKind", "__DirectiveLocation"}


def decorate(rng, s, p=0.3):
    """Adds descriptions, deprecations, hidden fields, custom directive definitions and usages."""
    input_types = [n for n in list(BUILTIN_SCALARS) + list(s.types) if s.is_input(n)]
    for i in range(rng.randint(0, 3)):
        name = "dir%d" % i if rng.random() < 0.7 else rng.choice(["on", "type", "query", "tag"]) + str(i)
        locs = rng.sample(TS_LOCATIONS + EX_LOCATIONS, rng.randint(1, 8))
        args = []
        for j in range(rng.randint(0, 2)):
            t = smodel.wrap_type(rng, rng.choice(input_types), 3, 0.2)
            a = Arg("a%d" % j, t)
            if rng.random() < 0.6 or t[0] == "NN":
                a.default = values.gen_literal(rng, s, t, None, 1)
                if a.default == ("null",) and t[0] == "NN":
                    a.default = values.plain_to_literal(rng, s, t, values._gen_plain_nn(rng, s, t, 1))
            if rng.random() < p:
                a.description = rng.choice(DESCS)
            args.append(a)
        d = DirectiveDef(name, locs, args, rng.choice(DESCS) if rng.random() < p else None)
        s.directives[name] = d

    def usage(loc):
        out = []
        for d in s.directives.values():
            if d.name in ("vtgate", "vtrec"):
                continue
            if loc in d.locations and rng.random() < 0.25:
                given = []
                for a in d.args:
                    if rng.random() < 0.5:
                        given.append((a.name, values.gen_literal(rng, s, a.type, None, 1)))
                out.append((d.name, given))
        return out

    s.schema_directives = usage("SCHEMA")
    if s.schema_directives:
        s.explicit_schema_def = True
    for t in s.types.values():
        if rng.random() < p:
            t.description = rng.choice(DESCS)
        t.directives = usage({"SCALAR": "SCALAR", "OBJECT": "OBJECT", "INTERFACE": "INTERFACE", "UNION": "UNION", "ENUM": "ENUM",
                              "INPUT_OBJECT": "INPUT_OBJECT"}[t.kind])
        if t.kind in ("OBJECT", "INTERFACE"):
            for f in t.fields.values():
                if rng.random() < p:
                    f.description = rng.choice(DESCS)
                f.directives = [d for d in f.directives if d[0] == "vtgate"] + usage("FIELD_DEFINITION")
                for a in f.args:
                    if rng.random() < p:
                        a.description = rng.choice(DESCS)
                    a.directives = [d for d in a.directives if d[0] == "vtgate"] + usage("ARGUMENT_DEFINITION")
        elif t.kind == "INPUT_OBJECT":
            for a in t.fields:
                if rng.random() < p:
                    a.description = rng.choice(DESCS)
                a.directives = usage("INPUT_FIELD_DEFINITION")
        elif t.kind == "ENUM":
            t.value_descriptions = {}
            for v in t.values:
                if rng.random() < p:
                    t.value_descriptions[v] = rng.choice(DESCS)
                if rng.random() < 0.25 and len(t.values) > 1:
                    t.deprecated[v] = rng.choice([True] + REASONS)
                u = usage("ENUM_VALUE")
                if u:
                    t.value_directives[v] = u
    # deprecations / hidden fields on object and interface fields (kept consistent across implementers
    # is not required by the spec)
    for t in s.types.values():
        if t.kind in ("OBJECT", "INTERFACE"):
            names = list(t.fields)
            for fn in names:
                r = rng.random()
                if r < 0.15:
                    t.fields[fn].deprecated = rng.choice([True] + REASONS)
                elif r < 0.22 and len(names) > 1 and t.name not in (s.query,):
                    t.fields[fn].non_introspectable = True
    return s


def print_enum(t, vals):
    lines = []
    for v in vals:
        d = getattr(t, "value_descriptions", {}).get(v)
        lines.append((("  " + esc_string(d) + "\n") if d is not None else "") + "  " + v + smodel._dep(t.deprecated.get(v))
                     + print_directives(t.value_directives.get(v, [])))
    return "\n".join(lines)


def dir_split(rng, dirs):
    """(directives kept on the definition, directives moved to the extension): type-level directives may arrive through
    an `extend <kind> Name @d ...` as well."""
    if dirs and rng.random() < 0.4:
        return "", dirs
    return dirs, ""


_EXT_KW = {"OBJECT": "type", "INTERFACE": "interface", "UNION": "union", "ENUM": "enum", "INPUT_OBJECT": "input"}


def type_chunks(rng, s, t, split):
    """Definition text(s) for one type; with `split` part of it moves into `extend` definitions."""
    if split and t.directives and t.kind in _EXT_KW and rng.random() < 0.3:
        # the type-level directives arrive through an extension that carries NOTHING else (`extend interface I @d`),
        # placed before the type's other extensions
        saved, t.directives = t.directives, []
        try:
            out = _type_chunks(rng, s, t, split)
        finally:
            t.directives = saved
        out.insert(1, "extend %s %s%s" % (_EXT_KW[t.kind], t.name, print_directives(saved)))
        return out
    return _type_chunks(rng, s, t, split)


def _type_chunks(rng, s, t, split):
    head = smodel._desc(t.description)
    dirs = print_directives(t.directives)
    if t.kind == "SCALAR":
        if split and t.directives:
            return ["%sscalar %s" % (head, t.name), "extend scalar %s%s" % (t.name, dirs)]
        return ["%sscalar %s%s" % (head, t.name, dirs)]
    if t.kind == "ENUM":
        vals = list(t.values)
        if split and len(vals) > 1:
            k = rng.randint(1, len(vals) - 1)
            dirs, xdirs = dir_split(rng, dirs)
            return ["%senum %s%s {\n%s\n}" % (head, t.name, dirs, print_enum(t, vals[:k])),
                    "extend enum %s%s {\n%s\n}" % (t.name, xdirs, print_enum(t, vals[k:]))]
        return ["%senum %s%s {\n%s\n}" % (head, t.name, dirs, print_enum(t, vals))]
    if t.kind == "UNION":
        mem = list(t.members)
        if split and len(mem) > 1:
            k = rng.randint(1, len(mem) - 1)
            dirs, xdirs = dir_split(rng, dirs)
            return ["%sunion %s%s = %s" % (head, t.name, dirs, " | ".join(mem[:k])),
                    "extend union %s%s = %s%s" % (t.name, xdirs, "| " if rng.random() < 0.3 else "", " | ".join(mem[k:]))]
        return ["%sunion %s%s = %s%s" % (head, t.name, dirs, "| " if rng.random() < 0.2 else "", " | ".join(mem))]
    if t.kind == "INPUT_OBJECT":
        fl = list(t.fields)

        def body(fs):
            return "\n".join(smodel._desc(a.description, "  ") + "  " + print_arg(a) for a in fs)
        if split and len(fl) > 1:
            k = rng.randint(1, len(fl) - 1)
            dirs, xdirs = dir_split(rng, dirs)
            return ["%sinput %s%s {\n%s\n}" % (head, t.name, dirs, body(fl[:k])), "extend input %s%s {\n%s\n}" % (t.name, xdirs, body(fl[k:]))]
        return ["%sinput %s%s {\n%s\n}" % (head, t.name, dirs, body(fl))]
    fl = list(t.fields.values())
    body = lambda fs: "\n".join(print_field(f) for f in fs)  # noqa
    if t.kind == "INTERFACE":
        if split and len(fl) > 1:
            k = rng.randint(1, len(fl) - 1)
            dirs, xdirs = dir_split(rng, dirs)
            return ["%sinterface %s%s {\n%s\n}" % (head, t.name, dirs, body(fl[:k])), "extend interface %s%s {\n%s\n}" % (t.name, xdirs, body(fl[k:]))]
        return ["%sinterface %s%s {\n%s\n}" % (head, t.name, dirs, body(fl))]
    ifs = list(t.interfaces)
    impl = lambda x: (" implements " + " & ".join(x)) if x else ""  # noqa
    if split and len(fl) > 1:
        k = rng.randint(1, len(fl) - 1)
        ki = rng.randint(0, len(ifs))
        if ifs[ki:] and rng.random() < 0.5:
            # the interfaces arrive through an extension that carries nothing else
            return ["%stype %s%s%s {\n%s\n}" % (head, t.name, impl(ifs[:ki]), dirs, body(fl[:k])),
                    "extend type %s%s" % (t.name, impl(ifs[ki:])),
                    "extend type %s {\n%s\n}" % (t.name, body(fl[k:]))]
        dirs, xdirs = dir_split(rng, dirs)
        return ["%stype %s%s%s {\n%s\n}" % (head, t.name, impl(ifs[:ki]), dirs, body(fl[:k])),
                "extend type %s%s%s {\n%s\n}" % (t.name, impl(ifs[ki:]), xdirs, body(fl[k:]))]
    if split and ifs and rng.random() < 0.5:
        return ["%stype %s%s {\n%s\n}" % (head, t.name, dirs, body(fl)), "extend type %s%s" % (t.name, impl(ifs))]
    if not fl:
        return ["%stype %s%s%s" % (head, t.name, impl(ifs), dirs)]       # only reachable through C12's rewrites
    return ["%stype %s%s%s {\n%s\n}" % (head, t.name, impl(ifs), dirs, body(fl))]


def chunks(rng, s, p_split=0.4, schema_where=None):
    out = [print_directive_def(d) for d in s.directives.values()]
    for t in s.types.values():
        out.extend(type_chunks(rng, s, t, rng.random() < p_split))
    sd = getattr(s, "schema_directives", [])
    if smodel.needs_schema_def(s) or sd or getattr(s, "non_introspectable", False):
        ni = " @nonIntrospectable" if getattr(s, "non_introspectable", False) else ""
        ops = [("query", s.query)] + ([("mutation", s.mutation)] if s.mutation else []) + ([("subscription", s.subscription)] if s.subscription else [])
        # upstream deliberately refuses `extend schema { mutation: Mutation }` when a type with the default root name
        # exists (tests/functional/regressions/issue278): only renamed roots are moved into a schema extension
        # schema directives may sit on the definition, on an operation-carrying extension, or on a directive-only extension
        where = rng.choice(["def", "def", "ext-ops", "ext-only"]) if (sd or ni) and rng.random() < max(p_split, 0.0) * 1.5 else "def"
        if schema_where:
            where = schema_where        # forced placement of the schema directives (C11 tries all three)
        dtext = print_directives(sd) + ni
        if len(ops) > 1 and (rng.random() < p_split or schema_where == "ext-ops") \
                and not any(o[1] in ("Mutation", "Subscription") for o in ops[1:]):
            out.append("schema%s {\n  query: %s\n}" % (dtext if where == "def" else "", s.query))
            if where == "ext-only":
                out.append("extend schema%s" % dtext)
            out.append("extend schema%s {\n%s\n}" % (dtext if where == "ext-ops" else "", "\n".join("  %s: %s" % o for o in ops[1:])))
        else:
            out.append("schema%s {\n%s\n}" % (dtext if where != "ext-only" else "", "\n".join("  %s: %s" % o for o in ops)))
            if where == "ext-only":
                out.append("extend schema%s" % dtext)
    return out


def supply(rng, parts, mode, workdir):
    """Returns the `sdl` argument for create_engine in the given supply mode."""
    parts = list(parts)
    if mode == "string":
        return "\n\n".join(parts) + "\n"
    os.makedirs(workdir, exist_ok=True)
    if mode == "file":
        p = os.path.join(workdir, "schema.sdl")
        with open(p, "w", encoding="utf-8") as f:
            f.write("\n\n".join(parts) + "\n")
        return p
    rng.shuffle(parts)
    n = rng.randint(2, min(5, max(2, len(parts))))
    groups = [[] for _ in range(n)]
    for i, c in enumerate(parts):
        groups[rng.randrange(n)].append(c)
    groups = [g for g in groups if g]
    files = []
    for i, g in enumerate(groups):
        if mode == "dir":
            sub = os.path.join(workdir, *(["d%d" % (i % 2)] * rng.randint(0, 2)))
            os.makedirs(sub, exist_ok=True)
            p = os.path.join(sub, "part%d.%s" % (i, rng.choice(["sdl", "graphql"])))
        else:
            p = os.path.join(workdir, "part%d.sdl" % i)
        with open(p, "w", encoding="utf-8") as f:
            # files need not end with a newline; they may end inside a comment
            f.write("\n\n".join(g) + rng.choice(["\n", "\n", "", " # end of file", "\n# trailing comment"]))
        files.append(p)
    if mode == "dir":
        with open(os.path.join(workdir, "README.txt"), "w") as f:
            f.write("type NotGraphQL { ignored: Int }\n")
        return workdir
    return files


# --------------------------------------------------------------------------- expected introspection

def norm_value(v):
    """Model literal -> order-insensitive, numerically normalised form."""
    k = v[0]
    if k == "int":
        return ("num", float(v[1]) if abs(v[1]) < 2 ** 53 else v[1])
    if k == "float":
        return ("num", float(v[1]))
    if k in ("string", "bool", "enum"):
        return (k, v[1])
    if k == "null":
        return ("null",)
    if k == "list":
        return ("list", tuple(norm_value(x) for x in v[1]))
    if k == "object":
        return ("object", tuple(sorted((n, norm_value(x)) for n, x in v[1])))
    raise ValueError(v)


def parse_default(text):
    """Parse a GraphQL-formatted value string with the independent parser."""
    ast = json.loads(pyparser.parse_to_json("{ f(x: %s) }" % text))
    node = ast["definitions"][0]["selectionSet"]["selections"][0]["arguments"][0]["value"]

    def conv(n):
        k = n["kind"]
        if k == "IntValue":
            return ("int", int(n["value"]))
        if k == "FloatValue":
            return ("float", n["value"])
        if k == "StringValue":
            return ("string", n["value"])
        if k == "BooleanValue":
            return ("bool", n["value"])
        if k == "NullValue":
            return ("null",)
        if k == "EnumValue":
            return ("enum", n["value"])
        if k == "ListValue":
            return ("list", [conv(x) for x in n["values"]])
        if k == "ObjectValue":
            return ("object", [(f["name"]["value"], conv(f["value"])) for f in n["fields"]])
        raise ValueError(k)
    return conv(node)


def typeref_str(t):
    """introspection type ref (kind/name/ofType chain) -> 'X', '[X]', 'X!'; None if malformed/too shallow."""
    if not isinstance(t, dict):
        return None
    k = t.get("kind")
    if k == "NON_NULL":
        inner = typeref_str(t.get("ofType"))
        return None if inner is None else inner + "!"
    if k == "LIST":
        inner = typeref_str(t.get("ofType"))
        return None if inner is None else "[" + inner + "]"
    return t.get("name")


def exp_args(args):
    return {a.name: {"description": a.description, "type": tstr(a.type),
                     "default": None if a.default is NODEF else norm_value(a.default)} for a in args}


def dep_of(dep):
    if dep is None:
        return (False, None)
    if dep is True:
        return (True, "No longer supported")
    return (True, dep)


def expected(s):
    types = {}
    for t in s.types.values():
        e = {"kind": t.kind, "description": t.description}
        if t.kind in ("OBJECT", "INTERFACE"):
            e["fields"] = {f.name: {"description": f.description, "type": tstr(f.type), "args": exp_args(f.args),
                                    "deprecated": dep_of(f.deprecated)} for f in t.fields.values() if not f.non_introspectable}
        if t.kind == "OBJECT":
            e["interfaces"] = set(t.interfaces)
        if t.kind in ("INTERFACE", "UNION"):
            e["possibleTypes"] = set(s.possible_types(t.name))
        if t.kind == "ENUM":
            e["enumValues"] = {v: {"description": getattr(t, "value_descriptions", {}).get(v), "deprecated": dep_of(t.deprecated.get(v))}
                               for v in t.values}
        if t.kind == "INPUT_OBJECT":
            e["inputFields"] = exp_args(t.fields)
        types[t.name] = e
    dirs = {}
    for d in s.directives.values():
        dirs[d.name] = {"description": d.description, "locations": set(d.locations), "args": exp_args(d.args)}
    for name, (locs, args) in BUILTIN_DIRECTIVES.items():
        dirs[name] = {"description": "*", "locations": set(locs),
                      "args": {a: {"description": "*", "type": t, "default": None if d is None else norm_value(d)} for a, t, d in args}}
    return {"types": types, "directives": dirs, "query": s.query, "mutation": s.mutation, "subscription": s.subscription}


TYPE_REF = "kind name ofType { kind name ofType { kind name ofType { kind name ofType { kind name ofType { kind name ofType { kind name } } } } } }"
INPUT_VALUE = "name description defaultValue type { %s }" % TYPE_REF
FULL_TYPE = ("kind name description fields(includeDeprecated: true) { name description isDeprecated deprecationReason "
             "args { %s } type { %s } } fieldsNoDep: fields { name isDeprecated } interfaces { kind name } possibleTypes { kind name } "
             "enumValues(includeDeprecated: true) { name description isDeprecated deprecationReason } "
             "enumNoDep: enumValues(includeDeprecated: false) { name } inputFields { %s } ofType { name }") % (INPUT_VALUE, TYPE_REF, INPUT_VALUE)
INTROSPECTION_QUERY = ("query IntrospectionQuery { __schema { queryType { name kind } mutationType { name } subscriptionType { name } "
                       "types { %s } directives { name description locations args { %s } } } }") % (FULL_TYPE, INPUT_VALUE)


# The same question asked the way GraphiQL-style clients ask it: named fragments (one of them recursive in depth through
# nesting, one spread at several depths) and includeDeprecated through variables. The answer must be the same data.
_TYPE_REF_FRAG = ("fragment TypeRef on __Type { kind name ofType { kind name ofType { kind name ofType { kind name ofType { kind name "
                  "ofType { kind name ofType { kind name } } } } } } }")
_INPUT_VALUE_FRAG = "fragment InputValue on __InputValue { name description defaultValue type { ...TypeRef } }"
_FULL_TYPE_FRAG = ("fragment FullType on __Type { kind name description fields(includeDeprecated: $d) { name description isDeprecated "
                   "deprecationReason args { ...InputValue } type { ...TypeRef } } fieldsNoDep: fields { name isDeprecated } "
                   "interfaces { kind name } possibleTypes { kind name } enumValues(includeDeprecated: $d) { name description "
                   "isDeprecated deprecationReason } enumNoDep: enumValues(includeDeprecated: $nd) { name } "
                   "inputFields { ...InputValue } ofType { name } }")
INTROSPECTION_QUERY_FRAGMENTS = (
    "query IntrospectionQuery($d: Boolean = true, $nd: Boolean) { __schema { queryType { name kind } mutationType { name } "
    "subscriptionType { name } types { ...FullType } directives { name description locations args { ...InputValue } } } }\n"
    + _FULL_TYPE_FRAG + "\n" + _INPUT_VALUE_FRAG + "\n" + _TYPE_REF_FRAG)


def actual_args(lst, where, problems):
    out = {}
    for a in lst or []:
        dv = a.get("defaultValue")
        parsed = None
        if dv is not None:
            try:
                parsed = norm_value(parse_default(dv))
            except Exception as e:  # noqa
                problems.append("%s.%s: defaultValue %r is not a parsable GraphQL value (%s)" % (where, a.get("name"), dv, type(e).__name__))
                parsed = ("unparsable", dv)
        if a.get("name") in out:
            problems.append("%s: duplicate input value %s" % (where, a.get("name")))
        out[a.get("name")] = {"description": a.get("description"), "type": typeref_str(a.get("type")), "default": parsed}
    return out


def compare_type(name, e, a, problems):
    """e: expected entry, a: introspected __Type dict."""
    if a.get("kind") != e["kind"]:
        problems.append("%s: kind %s, expected %s" % (name, a.get("kind"), e["kind"]))
        return
    if a.get("description") != e["description"]:
        problems.append("%s: description %r, expected %r" % (name, a.get("description"), e["description"]))

    def cmp_args(where, ea, aa):
        if set(ea) != set(aa):
            problems.append("%s: input values %s, expected %s" % (where, sorted(aa), sorted(ea)))
            return
        for n in ea:
            for k in ("type", "default", "description"):
                if ea[n][k] != aa[n][k] and not (ea[n][k] == "*"):
                    problems.append("%s.%s: %s %r, expected %r" % (where, n, k, aa[n][k], ea[n][k]))
    if e["kind"] in ("OBJECT", "INTERFACE"):
        af = {f.get("name"): f for f in a.get("fields") or []}
        if len(af) != len(a.get("fields") or []):
            problems.append("%s: duplicate fields" % name)
        if set(af) != set(e["fields"]):
            problems.append("%s: fields %s, expected %s" % (name, sorted(af), sorted(e["fields"])))
        else:
            for fn, ef in e["fields"].items():
                f = af[fn]
                if typeref_str(f.get("type")) != ef["type"]:
                    problems.append("%s.%s: type %s, expected %s" % (name, fn, typeref_str(f.get("type")), ef["type"]))
                if f.get("description") != ef["description"]:
                    problems.append("%s.%s: description %r, expected %r" % (name, fn, f.get("description"), ef["description"]))
                if (f.get("isDeprecated"), f.get("deprecationReason")) != ef["deprecated"]:
                    problems.append("%s.%s: deprecation %s, expected %s" % (name, fn, (f.get("isDeprecated"), f.get("deprecationReason")), ef["deprecated"]))
                cmp_args("%s.%s" % (name, fn), ef["args"], actual_args(f.get("args"), "%s.%s" % (name, fn), problems))
            nodep = {f.get("name") for f in a.get("fieldsNoDep") or []}
            want = {fn for fn, ef in e["fields"].items() if not ef["deprecated"][0]}
            if nodep != want:
                problems.append("%s: fields(includeDeprecated:false) %s, expected %s" % (name, sorted(nodep), sorted(want)))
    elif a.get("fields") is not None:
        problems.append("%s: fields must be null for kind %s" % (name, e["kind"]))
    if e["kind"] == "OBJECT":
        got = {x.get("name") for x in a.get("interfaces") or []}
        if got != e["interfaces"]:
            problems.append("%s: interfaces %s, expected %s" % (name, sorted(got), sorted(e["interfaces"])))
    if e["kind"] in ("INTERFACE", "UNION"):
        got = [x.get("name") for x in a.get("possibleTypes") or []]
        if set(got) != e["possibleTypes"] or len(got) != len(set(got)):
            problems.append("%s: possibleTypes %s, expected %s" % (name, sorted(got), sorted(e["possibleTypes"])))
    elif a.get("possibleTypes") is not None:
        problems.append("%s: possibleTypes must be null for kind %s" % (name, e["kind"]))
    if e["kind"] == "ENUM":
        av = {v.get("name"): v for v in a.get("enumValues") or []}
        if set(av) != set(e["enumValues"]) or len(av) != len(a.get("enumValues") or []):
            problems.append("%s: enumValues %s, expected %s" % (name, sorted(av), sorted(e["enumValues"])))
        else:
            for vn, ev in e["enumValues"].items():
                v = av[vn]
                if (v.get("isDeprecated"), v.get("deprecationReason")) != ev["deprecated"]:
                    problems.append("%s.%s: deprecation %s, expected %s" % (name, vn, (v.get("isDeprecated"), v.get("deprecationReason")), ev["deprecated"]))
                if v.get("description") != ev["description"]:
                    problems.append("%s.%s: description %r, expected %r" % (name, vn, v.get("description"), ev["description"]))
            nodep = {v.get("name") for v in a.get("enumNoDep") or []}
            want = {vn for vn, ev in e["enumValues"].items() if not ev["deprecated"][0]}
            if nodep != want:
                problems.append("%s: enumValues(includeDeprecated:false) %s, expected %s" % (name, sorted(nodep), sorted(want)))
    elif a.get("enumValues") is not None:
        problems.append("%s: enumValues must be null for kind %s" % (name, e["kind"]))
    if e["kind"] == "INPUT_OBJECT":
        cmp_args(name, e["inputFields"], actual_args(a.get("inputFields"), name, problems))
    elif a.get("inputFields") is not None:
        problems.append("%s: inputFields must be null for kind %s" % (name, e["kind"]))


_BASELINE = {}


async def engine_builtins():
    """What THIS tree's engine reports for a one-field schema: its own built-in scalars and directives, whatever they are
    (the statement leaves them to the engine).  {"types": {name: entry}, "directives": {name: entry}}, computed once per
    process from a throw-away engine."""
    if "b" not in _BASELINE:
        from tartiflette import Engine
        from vt import boot
        name = boot.fresh_schema_name("builtins")
        e = Engine("type Query {\n  vtOnly_: Int\n}\n", schema_name=name)
        await e.cook()
        r = await e.execute(INTROSPECTION_QUERY)
        boot.forget_schema(name)
        sch = (r.get("data") or {}).get("__schema") or {}
        _BASELINE["b"] = {"types": {t["name"]: t for t in sch.get("types") or [] if t.get("name") != "Query"},
                          "directives": {d["name"]: d for d in sch.get("directives") or []}}
    return _BASELINE["b"]


def _same_entry(a, b):
    def norm(x):
        if isinstance(x, dict):
            return {k: norm(v) for k, v in sorted(x.items())}
        if isinstance(x, list):
            return sorted((norm(i) for i in x), key=lambda i: json.dumps(i, sort_keys=True, default=str))
        return x
    return json.dumps(norm(a), sort_keys=True, default=str) == json.dumps(norm(b), sort_keys=True, default=str)


def compare_schema(s, data, builtins=None):
    """data: response['data']['__schema'].  Returns list of problems.  `builtins` (engine_builtins()): with it, whatever is
    not declared must be one of the engine's own built-ins, reported exactly as for the one-field schema; without it the
    pinned table of today's built-ins is used."""
    problems = []
    exp = expected(s)
    sch = data
    if builtins is not None:
        for name in BUILTIN_DIRECTIVES:
            if name not in s.directives:
                exp["directives"].pop(name, None)
    for key, field in (("query", "queryType"), ("mutation", "mutationType"), ("subscription", "subscriptionType")):
        got = (sch.get(field) or {}).get("name")
        if got != exp[key]:
            problems.append("%s is %r, expected %r" % (field, got, exp[key]))
    at = {}
    for t in sch.get("types") or []:
        if t.get("name") in at:
            problems.append("type %s listed twice" % t.get("name"))
        at[t.get("name")] = t
    for name in exp["types"]:
        if name not in at:
            problems.append("declared type %s missing from __schema.types" % name)
    for name in at:
        if name in exp["types"] or name in META_TYPES:
            continue
        if builtins is not None:
            if name not in builtins["types"]:
                problems.append("undeclared type %s in __schema.types" % name)
            elif not _same_entry(at[name], builtins["types"][name]):
                problems.append("built-in type %s reported differently than for a one-field schema" % name)
        elif name not in BUILTIN_TYPES:
            problems.append("undeclared type %s in __schema.types" % name)
    for name in BUILTIN_SCALARS:
        if name not in at or at[name].get("kind") != "SCALAR":
            problems.append("built-in scalar %s missing" % name)
    for name, e in exp["types"].items():
        if name in at:
            compare_type(name, e, at[name], problems)
    ad = {d.get("name"): d for d in sch.get("directives") or []}
    for name, arg in (("skip", "if"), ("include", "if"), ("deprecated", "reason")):
        # the directives the specification itself requires of every schema
        if name not in ad or arg not in [a.get("name") for a in ad[name].get("args") or []]:
            problems.append("specified directive @%s(%s:) missing from __schema.directives" % (name, arg))
    if builtins is not None:
        # the engine's own directives: all present, each reported exactly as for the one-field schema; the rest is the model's
        for name, entry in builtins["directives"].items():
            if name in exp["directives"]:
                continue
            if name not in ad:
                problems.append("built-in directive @%s missing" % name)
            elif not _same_entry(ad[name], entry):
                problems.append("built-in directive @%s reported differently than for a one-field schema" % name)
            ad.pop(name, None)
    if set(ad) != set(exp["directives"]):
        problems.append("directives %s, expected %s" % (sorted(ad), sorted(exp["directives"])))
    else:
        for name, e in exp["directives"].items():
            d = ad[name]
            if set(d.get("locations") or []) != e["locations"] or len(d.get("locations") or []) != len(e["locations"]):
                problems.append("@%s: locations %s, expected %s" % (name, d.get("locations"), sorted(e["locations"])))
            if e["description"] != "*" and d.get("description") != e["description"]:
                problems.append("@%s: description %r, expected %r" % (name, d.get("description"), e["description"]))
            aa = actual_args(d.get("args"), "@" + name, problems)
            if set(aa) != set(e["args"]):
                problems.append("@%s: args %s, expected %s" % (name, sorted(aa), sorted(e["args"])))
            else:
                for n in aa:
                    for k in ("type", "default", "description"):
                        if e["args"][n][k] != "*" and aa[n][k] != e["args"][n][k]:
                            problems.append("@%s.%s: %s %r, expected %r" % (name, n, k, aa[n][k], e["args"][n][k]))
    return problems
